package main

import (
	"bytes"
	"fmt"
	"go/ast"
	"go/parser"
	"go/token"
	"io"
	"log"
	"os"
	"os/exec"
	"path/filepath"
	"sort"
	"strconv"
	"strings"
	"sync"

	genumgen "github.com/drshriveer/gtools/genum/gen"
	gerrorgen "github.com/drshriveer/gtools/gerror/gen"
	gsortgen "github.com/drshriveer/gtools/gsort/gen"
	"verif/harness/internal/hx"
)

// ---- C14: repeated generation (separate processes, previous output present, same process) and
// the order of types / sorters / values / fields in the output.

type c14obs struct {
	compiles bool     // the reference output builds with its package (only looked at for shapes whose legality is in question)
	repeat   string   // same | differs:<mode> | err:<...>
	order    []string // observed order (meaning depends on the generator)
	clone    []string
	print    []string
}

func (it *item) srcArgs() (src string, args []string) {
	src = it.files()[it.defName()]
	defer func() {
		// an output file named by the caller
		if it.outName != "" {
			args = append(args, it.outFlag(), it.outName)
		}
	}()
	switch it.gen {
	case "genum":
		c := it.gc
		args = []string{"-in", it.defName(), "-types", strings.Join(c.typeNames(), ","),
			"-json=" + strconv.FormatBool(c.opts[0]), "-yaml=" + strconv.FormatBool(c.opts[1]), "-text=" + strconv.FormatBool(c.opts[2]),
			"-caseInsensitive=" + strconv.FormatBool(c.opts[3]), "-disableTraits=" + strconv.FormatBool(c.opts[4])}
		if p := c.parsable(); len(p) > 0 {
			args = append(args, "-parsableByTraits", strings.Join(p, ","))
		}
	case "gerror":
		c := it.ec
		args = []string{"-in-file", it.defName(), "-types", strings.Join(c.typeNames(), ",")}
		if c.skip {
			args = append(args, "-skipConvertGen")
		}
	case "gsort":
		args = []string{"-in-file", it.defName(), "-types", strings.Join(it.sc.typeNames(), ",")}
	}
	return
}

// files: every hand-written file of the case's package (definition file first among equals).
func (it *item) files() map[string]string {
	switch it.gen {
	case "genum":
		return it.gc.files(it.pkg, it.defName())
	case "gerror":
		return it.ec.files(it.pkg, it.defName())
	case "gsort":
		return it.sc.files(it.pkg, it.defName())
	}
	return nil
}

// writeDefs puts the hand-written files of the case into dir.
func (it *item) writeDefs(dir string) {
	for name, src := range it.files() {
		os.WriteFile(filepath.Join(dir, name), []byte(src), 0o644)
	}
}

func (it *item) removeDefs(dir string) {
	for name := range it.files() {
		os.Remove(filepath.Join(dir, name))
	}
}

func (it *item) outFlag() string {
	if it.gen == "gsort" {
		return "-out-file"
	}
	return "-out"
}

func (it *item) assertSource() string {
	switch it.gen {
	case "genum":
		return it.gc.assertSource(it.pkg)
	case "gerror":
		return it.ec.assertSource(it.pkg)
	}
	return it.sc.assertSource(it.pkg)
}

// prevArgs: the arguments of a preceding run whose output is LONGER than the target's (nil if the
// case has none).
func (it *item) prevArgs() (args []string) {
	if it.prevKind() == "same" {
		_, a := it.srcArgs()
		return a
	}
	defer func() {
		if args != nil && it.outName != "" {
			args = append(args, it.outFlag(), it.outName)
		}
	}()
	switch it.gen {
	case "genum":
		c := it.gc
		if c.prev == "" {
			return nil
		}
		o := c.opts
		if c.prev == "allon" {
			o = [5]bool{true, true, true, true, false}
		}
		args := []string{"-in", it.defName(), "-types", strings.Join(c.allTypeNames(), ","),
			"-json=" + strconv.FormatBool(o[0]), "-yaml=" + strconv.FormatBool(o[1]), "-text=" + strconv.FormatBool(o[2]),
			"-caseInsensitive=" + strconv.FormatBool(o[3]), "-disableTraits=" + strconv.FormatBool(o[4])}
		if p := c.parsable(); len(p) > 0 {
			args = append(args, "-parsableByTraits", strings.Join(p, ","))
		}
		return args
	case "gerror":
		c := it.ec
		if c.prev == "" {
			return nil
		}
		args := []string{"-in-file", it.defName(), "-types", strings.Join(c.allTypeNames(), ",")}
		if c.skip && c.prev != "noskip" {
			args = append(args, "-skipConvertGen")
		}
		return args
	case "gsort":
		if it.sc.prev == "" {
			return nil
		}
		return []string{"-in-file", it.defName(), "-types", strings.Join(it.sc.allTypeNames(), ",")}
	}
	return nil
}

func (it *item) prevKind() string {
	switch it.gen {
	case "genum":
		return it.gc.prev
	case "gerror":
		return it.ec.prev
	case "gsort":
		return it.sc.prev
	}
	return ""
}

// inProcess runs the generator's exported API inside this process (cwd = package directory).
func (w *world) inProcess(it *item, dir string) (err error) {
	defer func() {
		if r := recover(); r != nil {
			err = fmt.Errorf("panic: %v", r)
		}
	}()
	old, _ := os.Getwd()
	if err := os.Chdir(dir); err != nil {
		return err
	}
	defer os.Chdir(old)
	v := newGenValue(it, filepath.Join(dir, it.defName()), filepath.Join(dir, it.genName()))
	if v == nil {
		return fmt.Errorf("unknown generator")
	}
	if err := v.parse(); err != nil {
		return err
	}
	return v.write()
}

// genValue is ONE value of a generator's exported Generate type.
type genValue struct {
	parse, write func() error
	setTypes     func([]string)
	types        []string
}

func newGenValue(it *item, in, out string) *genValue {
	switch it.gen {
	case "genum":
		c := it.gc
		g := &genumgen.Generate{InFile: in, OutFile: out, Types: c.typeNames(), GenJSON: c.opts[0], GenYAML: c.opts[1], GenText: c.opts[2],
			CaseInsensitive: c.opts[3], DisableTraits: c.opts[4], ParsableByTraits: c.parsable()}
		return &genValue{parse: g.Parse, write: g.Write, setTypes: func(t []string) { g.Types = t }, types: c.typeNames()}
	case "gerror":
		g := &gerrorgen.Generate{InFile: in, OutFile: out, Types: it.ec.typeNames(), SkipConvertGen: it.ec.skip}
		return &genValue{parse: g.Parse, write: g.Write, setTypes: func(t []string) { g.Types = t }, types: it.ec.typeNames()}
	case "gsort":
		g := &gsortgen.Generate{InFile: in, OutFile: out, Types: it.sc.typeNames()}
		return &genValue{parse: g.Parse, write: g.Write, setTypes: func(t []string) { g.Types = t }, types: it.sc.typeNames()}
	}
	return nil
}

// reuseVsCLI keeps ONE generator value and runs Parse+Write on it three times, then once more
// after a Parse that fails half-way (a type that does not exist appended to -types); every file
// it writes must equal what a separate process writes for the definition.
func (w *world) reuseVsCLI(header string) (res string) {
	it, err := parseHeader(header)
	if err != nil {
		return "bad-op"
	}
	w.mu.Lock()
	defer w.mu.Unlock()
	base := filepath.Join(w.root, "m", fmt.Sprintf("u%d", w.nPkg))
	w.nPkg++
	defer func() {
		if os.Getenv("VERIF_KEEP") == "" {
			os.RemoveAll(base)
		}
	}()
	defer func() {
		if r := recover(); r != nil {
			res = "differs:panic-on-reuse"
		}
	}()
	it.pkg = "rp"
	_, args := it.srcArgs()
	dirs := [2]string{filepath.Join(base, "cli", "rp"), filepath.Join(base, "in", "rp")}
	for _, d := range dirs {
		os.MkdirAll(d, 0o755)
		it.writeDefs(d)
	}
	cmd := exec.Command(w.bins[it.gen], args...)
	cmd.Dir = dirs[0]
	cmd.Env = append(append([]string{}, w.env...), "PWD="+dirs[0], "GOFILE="+it.defName(), "GOPACKAGE=rp")
	w.genRuns++
	_, cliErr := cmd.CombinedOutput()
	ref, _ := os.ReadFile(filepath.Join(dirs[0], it.genName()))
	old, _ := os.Getwd()
	if err := os.Chdir(dirs[1]); err != nil {
		return "bad-op"
	}
	defer os.Chdir(old)
	v := newGenValue(it, filepath.Join(dirs[1], it.defName()), filepath.Join(dirs[1], it.genName()))
	round := func(label string) string {
		w.genRuns++
		err := v.parse()
		if err == nil {
			err = v.write()
		}
		if (err != nil) != (cliErr != nil) {
			return "differs:" + label + ":error-in-one-mode"
		}
		if err != nil {
			return ""
		}
		got, _ := os.ReadFile(filepath.Join(dirs[1], it.genName()))
		if !bytes.Equal(got, ref) {
			return "differs:" + label
		}
		return ""
	}
	for _, label := range []string{"first-use", "second-use-of-one-generator-value", "third-use-of-one-generator-value"} {
		if r := round(label); r != "" {
			return r
		}
	}
	v.setTypes(append(append([]string{}, v.types...), "NoSuchTypeAnywhere"))
	w.genRuns++
	_ = v.parse() // fails for gerror and gsort (type not found); genum only finds no values for it
	v.setTypes(v.types)
	if r := round("use-after-failed-parse"); r != "" {
		return r
	}
	return "same"
}

func (w *world) observe14(header string, k int) *c14obs {
	it, err := parseHeader(header)
	if err != nil {
		return &c14obs{repeat: "bad-op"}
	}
	o := &c14obs{}
	w.mu.Lock()
	base := filepath.Join(w.root, "m", fmt.Sprintf("r%d", w.nPkg))
	w.nPkg++
	w.mu.Unlock()
	it.pkg = "rp"
	defer func() {
		if os.Getenv("VERIF_KEEP") == "" {
			os.RemoveAll(base)
		}
	}()
	_, args := it.srcArgs()
	genName := it.genName()
	mk := func(name string) string {
		d := filepath.Join(base, name, "rp")
		os.MkdirAll(d, 0o755)
		it.writeDefs(d)
		return d
	}
	nCLI := 0
	cli := func(dir string) error {
		cmd := exec.Command(w.bins[it.gen], args...)
		cmd.Dir = dir
		cmd.Env = append(append([]string{}, w.env...), "PWD="+dir, "GOFILE="+it.defName(), "GOPACKAGE=rp")
		// the number of OS threads the generator may use varies from run to run (go/packages parses
		// the files of a package concurrently; the output must not depend on who finishes first)
		if p := []string{"", "1", "2", "8"}[nCLI%4]; p != "" {
			cmd.Env = append(cmd.Env, "GOMAXPROCS="+p)
		}
		nCLI++
		if strings.Contains(it.header, " nopwd=t") {
			// NOT how go generate starts a generator (it always sets PWD): relative -in path
			cmd.Env = append(append([]string{}, w.env...), "GOFILE="+it.defName(), "GOPACKAGE=rp")
			for i, e := range cmd.Env {
				if strings.HasPrefix(e, "PWD=") {
					cmd.Env[i] = "VERIF_NO_PWD=1"
				}
			}
		}
		w.mu.Lock()
		w.genRuns++
		w.mu.Unlock()
		if out, err := cmd.CombinedOutput(); err != nil {
			return fmt.Errorf("%s", classifyGen(string(out)))
		}
		return nil
	}
	// overPreviousOutput: the package as it looks after the helpers were added to a definition file
	// that had been generated before (output of the helper-less twin present), generated with the
	// case's own source and options.
	overPreviousOutput := func() error {
		twin, err := parseHeader(strings.Replace(it.header, " helpers=t", "", 1))
		if err != nil {
			return err
		}
		twin.pkg = it.pkg
		d := filepath.Join(base, "hprev", "rp")
		os.MkdirAll(d, 0o755)
		twin.writeDefs(d)
		if err := cli(d); err != nil {
			return fmt.Errorf("twin: %v", err)
		}
		it.writeDefs(d)
		return cli(d)
	}
	var ref []byte
	check := func(mode, dir string) bool {
		b, err := os.ReadFile(filepath.Join(dir, genName))
		if err != nil {
			b = []byte("<no file>")
		}
		if ref == nil {
			ref = b
			return true
		}
		if !bytes.Equal(ref, b) {
			o.repeat = "differs:" + mode
			return false
		}
		return true
	}
	// k rounds; each round: a fresh package in a separate process, the same package again with
	// the previous output present and a third time, and once in this process (fresh), and again
	// (output present)
	for r := 0; r < k && o.repeat == ""; r++ {
		d := mk(fmt.Sprintf("f%d", r))
		if err := cli(d); err != nil {
			o.repeat = err.Error()
			if r == 0 && strings.Contains(it.header, " helpers=t") {
				// refused in a fresh package: the refusal is only "a function of source and options"
				// if the same source and options are also refused once an output sits in the package
				if overPreviousOutput() == nil {
					o.repeat = "differs:error-in-fresh-package-success-over-previous-output"
				}
			}
			return o
		}
		if !check("separate-process", d) {
			break
		}
		if err := cli(d); err != nil {
			o.repeat = "differs:error-with-previous-output:" + err.Error()
			break
		}
		if !check("previous-output-present", d) {
			break
		}
		// and a third time where the caller names the output file: a generator that recognises its
		// own previous output by name may alternate
		if it.outName != "" || w.thorough {
			if err := cli(d); err != nil {
				o.repeat = "differs:error-in-third-generation:" + err.Error()
				break
			}
			if !check("third-generation-over-previous-output", d) {
				break
			}
		}
		d2 := mk(fmt.Sprintf("i%d", r))
		for j := 0; j < 2; j++ {
			w.mu.Lock()
			err := w.inProcess(it, d2)
			w.genRuns++
			w.mu.Unlock()
			if err != nil {
				o.repeat = "differs:in-process-error"
				break
			}
			if !check("same-process", d2) {
				break
			}
		}
	}
	if it.gc != nil && it.gc.shape == "collide" {
		bld := exec.Command("go", "build", ".")
		bld.Dir = filepath.Join(base, "f0", "rp")
		bld.Env = w.env
		_, berr := bld.CombinedOutput()
		o.compiles = berr == nil
	}
	if strings.Contains(it.header, " helpers=t") && o.repeat == "" {
		if err := overPreviousOutput(); err != nil {
			if !strings.HasPrefix(err.Error(), "twin:") {
				o.repeat = "differs:error-over-previous-output-success-in-fresh-package"
			}
		} else {
			check("helpers-added-over-previous-output", filepath.Join(base, "hprev", "rp"))
		}
	}
	// once per case: the run made over a DIFFERENT, longer previous output (more -types / more
	// options before) must write what a fresh package gets
	if prev := it.prevArgs(); prev != nil && o.repeat == "" {
		d := mk("prev")
		cmd := exec.Command(w.bins[it.gen], prev...)
		cmd.Dir = d
		cmd.Env = append(append([]string{}, w.env...), "PWD="+d, "GOFILE="+it.defName(), "GOPACKAGE=rp")
		w.mu.Lock()
		w.genRuns++
		w.mu.Unlock()
		if _, err := cmd.CombinedOutput(); err == nil {
			if err := cli(d); err != nil {
				o.repeat = "differs:error-over-different-previous-output"
			} else {
				check("over-different-previous-output", d)
			}
		}
	}
	if o.repeat == "" {
		o.repeat = "same"
	}
	// order observations on the reference output
	if f, err := parser.ParseFile(token.NewFileSet(), genName, ref, 0); err == nil {
		for _, d := range f.Decls {
			switch x := d.(type) {
			case *ast.GenDecl:
				for _, s := range x.Specs {
					if ts, ok := s.(*ast.TypeSpec); ok && it.gen == "gsort" {
						o.order = append(o.order, ts.Name.Name)
					}
					if vs, ok := s.(*ast.ValueSpec); ok && it.gen == "genum" && len(vs.Names) == 1 && vs.Names[0].Name == "_AlphaValues" && len(vs.Values) == 1 {
						if cl, ok := vs.Values[0].(*ast.CompositeLit); ok {
							for _, e := range cl.Elts {
								if id, ok := e.(*ast.Ident); ok {
									o.order = append(o.order, id.Name)
								}
							}
						}
					}
				}
			case *ast.FuncDecl:
				if it.gen != "gerror" || x.Recv == nil || !strings.Contains(exprStr(x.Recv.List[0].Type), "AlphaError") {
					continue
				}
				if x.Name.Name == "toPrimaryType" {
					ast.Inspect(x.Body, func(n ast.Node) bool {
						if kv, ok := n.(*ast.KeyValueExpr); ok {
							if id, ok := kv.Key.(*ast.Ident); ok && id.Name != "GError" {
								o.clone = append(o.clone, id.Name)
							}
						}
						return true
					})
				}
				if x.Name.Name == "Error" {
					ast.Inspect(x.Body, func(n ast.Node) bool {
						if c, ok := n.(*ast.CallExpr); ok {
							if s, ok := c.Fun.(*ast.SelectorExpr); ok && s.Sel.Name == "Sprintf" && len(c.Args) == 2 {
								if sel, ok := c.Args[1].(*ast.SelectorExpr); ok {
									o.print = append(o.print, sel.Sel.Name)
								}
							}
						}
						return true
					})
				}
			}
		}
	}
	return o
}

// inprocVsCLI generates one definition inside this process (after whatever this process generated
// before) and in a separate process, each into a fresh package of its own, and compares the bytes.
func (w *world) inprocVsCLI(header string) string {
	it, err := parseHeader(header)
	if err != nil {
		return "bad-op"
	}
	w.mu.Lock()
	base := filepath.Join(w.root, "m", fmt.Sprintf("s%d", w.nPkg))
	w.nPkg++
	w.mu.Unlock()
	defer func() {
		if os.Getenv("VERIF_KEEP") == "" {
			os.RemoveAll(base)
		}
	}()
	it.pkg = "rp"
	_, args := it.srcArgs()
	genName := it.genName()
	var outs [2][]byte
	var errs [2]error
	for k, name := range []string{"in", "cli"} {
		d := filepath.Join(base, name, "rp")
		os.MkdirAll(d, 0o755)
		it.writeDefs(d)
		w.mu.Lock()
		w.genRuns++
		if k == 0 {
			errs[k] = w.inProcess(it, d)
		}
		w.mu.Unlock()
		if k == 1 {
			cmd := exec.Command(w.bins[it.gen], args...)
			cmd.Dir = d
			cmd.Env = append(append([]string{}, w.env...), "PWD="+d, "GOFILE="+it.defName(), "GOPACKAGE=rp")
			_, errs[k] = cmd.CombinedOutput()
		}
		outs[k], _ = os.ReadFile(filepath.Join(d, genName))
	}
	switch {
	case errs[0] != nil && errs[1] != nil:
		return "same"
	case errs[0] != nil || errs[1] != nil:
		return "differs:error-in-one-mode"
	case !bytes.Equal(outs[0], outs[1]):
		return "differs:in-process-vs-separate-process"
	}
	return "same"
}

func exprStr(e ast.Expr) string {
	switch x := e.(type) {
	case *ast.StarExpr:
		return "*" + exprStr(x.X)
	case *ast.Ident:
		return x.Name
	}
	return ""
}

type impl14 struct {
	w   *world
	obs map[string]*c14obs
	cur *c14obs
	hdr string
}

func (m *impl14) Reset() { m.cur, m.hdr = nil, "" }

func commas(xs []string) string {
	if len(xs) == 0 {
		return "-"
	}
	return strings.Join(xs, ",")
}

func (m *impl14) Exec(line string) string {
	ws := strings.Fields(line)
	if len(ws) >= 2 && ws[0] == "case" {
		m.hdr, m.cur = line, nil
		return line
	}
	if len(ws) < 2 || ws[0] != "go_" {
		return "bad-op"
	}
	if ws[1] == "reuse" && len(ws) >= 3 {
		return m.w.reuseVsCLI("case go_ " + strings.Join(ws[2:], " "))
	}
	if ws[1] == "inproc" && len(ws) >= 4 && ws[2] == "chain" {
		return m.w.chainVsCLI(ws[3:])
	}
	if ws[1] == "inproc" && len(ws) >= 3 {
		return m.w.inprocVsCLI("case go_ " + strings.Join(ws[2:], " "))
	}
	if ws[1] == "repeat" && len(ws) == 3 {
		k, err := strconv.Atoi(ws[2])
		if err != nil || k < 1 || k > 20 {
			return "bad-op"
		}
		key := m.hdr + "#" + ws[2]
		if m.obs[key] == nil {
			m.obs[key] = m.w.observe14(m.hdr, k)
		}
		m.cur = m.obs[key]
		return m.cur.repeat
	}
	if m.cur == nil || len(ws) < 3 {
		return "bad-op"
	}
	if strings.HasPrefix(m.cur.repeat, "err:") {
		return "refused" // nothing was written: order questions do not arise
	}
	switch ws[1] + " " + ws[2] {
	case "gsort order", "genum values":
		return show(m.cur.order)
	case "gerror fields":
		return "clone=" + commas(m.cur.clone) + " print=" + commas(m.cur.print)
	}
	return "bad-op"
}

func compare14(req, im, mo string) bool {
	if im == mo {
		return true
	}
	// a definition the generator refuses (deterministically) is not a C14 matter
	ws := strings.Fields(req)
	if len(ws) >= 2 && ws[1] == "repeat" {
		return strings.HasPrefix(im, "err:")
	}
	return im == "refused"
}

func lines14(header string, k int, extra ...string) []string {
	h := strings.Replace(header, "case gg ", "case go_ ", 1)
	return append([]string{h, fmt.Sprintf("go_ repeat %d", k)}, extra...)
}

func run14(f *hx.Flags, w *world) {
	os.Setenv("GOWORK", filepath.Join(w.root, "m", "go.work"))
	for _, kv := range []string{"GOPROXY=off", "GOSUMDB=off", "GOTOOLCHAIN=local", "GOFLAGS=", "GO111MODULE=on"} {
		p := strings.SplitN(kv, "=", 2)
		os.Setenv(p[0], p[1])
	}
	log.SetOutput(io.Discard) // the in-process generator runs log their warnings through package log
	m := &impl14{w: w, obs: map[string]*c14obs{}}
	r := hx.NewRunner(f, "h-gensweep", m, "non-trivial = the definition puts at least two entries into a map the generator walks (two sorters of one struct, two duplicate groups, two active imports) or has at least two types / values / tagged fields")
	r.Compare = compare14
	r.ShrinkBudget, r.ShrinkMax = 2, 4
	r.KeyOf = func(d *hx.Disagreement) string {
		ws := strings.Fields(d.Request)
		k := "C14:" + strings.Join(ws[1:min(3, len(ws))], ":")
		if len(ws) > 1 && ws[1] == "repeat" {
			k = "C14:repeat:" + d.Impl
		}
		if len(ws) > 2 && (ws[1] == "inproc" || ws[1] == "reuse") {
			im := d.Impl
			if i := strings.Index(im, ":in-process-"); i > 0 {
				im = im[:i] // the byte counts stay in the replay, not in the class
			}
			return "C14:" + ws[2] + ":" + ws[1] + ":" + im
		}
		if len(d.Case.Lines) > 0 {
			k = strings.Replace(k, "C14:", "C14:"+strings.Fields(d.Case.Lines[0])[2]+":", 1)
		}
		return k
	}
	if r.HandleReplay() {
		return
	}
	r.RunCorpus()
	g := &gen{r: r, w: w, thorough: f.Tier == "thorough"}
	k := 2
	nrand := 1
	if g.thorough {
		k, nrand = 5, 30
	}
	kOf := map[string]int{} // header -> rounds, where a case wants its own number
	var queue []hx.Case
	add := func(c hx.Case) { queue = append(queue, c) }
	// gsort: >= 2 sorters per struct, value and pointer, two structs
	gs := []*gsortCase{
		{two: true, file: "sort", fields: []gsortField{{"A", "int", []string{"ByA,1", "*ByAP,2"}}, {"B", "string", []string{"ByA,2", "*ByAP,1", "Zed,1"}}, {"C", "bool", []string{"Mid,1"}}}},
		{fields: []gsortField{{"A", "int", []string{"ByA,1"}}, {"R", "rank", []string{"*ByR,1,String()"}}}},
	}
	gs = append(gs, &gsortCase{two: true, only1: true, prev: "moretypes", file: "gsort", fields: []gsortField{{"A", "int", []string{"ByA,1", "*ByAP,1"}}, {"B", "string", []string{"ByA,2"}}}})
	// struct types spread over 2-4 files of the package (-types are looked up in the package scope;
	// the files are parsed concurrently), two sorters per struct; and an output file named by the
	// caller, which the second and third generation find in the package
	{
		two := []gsortField{{"A", "int", []string{"ByA,1", "*ByAP,2"}}, {"B", "string", []string{"ByA,2", "*ByAP,1"}}}
		gs = append(gs,
			&gsortCase{nt: 4, split: 4, fields: two},
			&gsortCase{nt: 3, split: 3, file: "sort", out: "sorted_gen.go", fields: two},
			&gsortCase{two: true, out: "sorters_gen.go", fields: two})
		if g.thorough {
			gs = append(gs, &gsortCase{two: true, split: 2, fields: []gsortField{{"A", "int", []string{"ByA,1"}}, {"R", "rank", []string{"*ByR,1,String()", "ByA,2"}}}})
		}
	}
	for i := 0; i < r.N(nrand) && g.thorough; i++ {
		c := g.randomGsort()
		if g.thorough && i%2 == 0 {
			c.two, c.only1, c.prev = true, true, "moretypes"
		}
		switch i % 5 {
		case 1:
			c.two, c.nt, c.split = false, 3+i%2, 2+i%3
			if c.split > c.nTypes() {
				c.split = c.nTypes()
			}
		case 3:
			c.out = "sorters_gen.go"
		}
		gs = append(gs, c)
	}
	// hand-written helpers in the definition file that call the generated sorter types
	gs = append(gs, &gsortCase{helpers: true, fields: []gsortField{{"A", "int", []string{"ByA,1", "*ByAP,2"}}, {"B", "string", []string{"ByA,2", "*ByAP,1"}}}})
	if g.thorough {
		gs = append(gs, &gsortCase{helpers: true, two: true, file: "sort", fields: []gsortField{{"A", "int", []string{"ByA,1"}}, {"R", "rank", []string{"*ByR,1,String()"}}}})
	}
	for _, c := range gs {
		var req []string
		for ti, tn := range c.typeNames() {
			seen := map[string]bool{}
			for _, fl := range c.fields {
				for _, t := range fl.tags {
					n := strings.Split(t, ",")[0] + sorterSuffix(ti)
					if !seen[n] {
						seen[n] = true
						req = append(req, tn+"/"+n)
					}
				}
			}
		}
		kk := k
		if c.prev != "" && !g.thorough {
			kk = 1
		}
		if c.split >= 4 || (c.split >= 2 && g.thorough) {
			kk = k + 1 // more generations where a dependence on the parse order would sit
		}
		if c.helpers && !g.thorough {
			kk = 1
		}
		ls := lines14(c.header(), kk)
		kOf[ls[0]] = kk
		if len(req) > 0 {
			ls = append(ls, "go_ gsort order "+strings.Join(req, " "))
		}
		add(hx.Case{Lines: ls, Domain: true, Nontrivial: len(req) >= 2, Tags: []string{"gsort"}})
	}
	// gerror: several tagged fields, two types
	ge := []*gerrorCase{
		{two: true, file: "error", fields: []gerrField{{"Zeta", "int", "pc"}, {"Alpha", "string", "p"}, {"Mid", "dur", "c"}, {"Beta", "status", "n:Shown:pc"}, {"Plain", "string", ""}}},
		{skip: true, custom: true, fields: []gerrField{{"B", "int", "c"}, {"A", "int", "c"}}},
	}
	ge = append(ge, &gerrorCase{two: true, only1: true, prev: "moretypes", file: "gerror", fields: []gerrField{{"Code", "int", "pc"}, {"Also", "string", "c"}}})
	// the two error types in different files; output files named by the caller (with generated and
	// with caller-written Convert/ConvertS)
	ge = append(ge,
		&gerrorCase{two: true, split: 2, fields: []gerrField{{"Code", "int", "pc"}, {"Stat", "status", "c"}}},
		&gerrorCase{two: true, out: "errs_gen.go", fields: []gerrField{{"Code", "int", "pc"}, {"When", "dur", "c"}}})
	if g.thorough {
		ge = append(ge, &gerrorCase{skip: true, custom: true, out: "errors_gen.go", file: "error", fields: []gerrField{{"Code", "int", "pc"}}})
	}
	for i := 0; i < r.N(nrand) && g.thorough; i++ {
		c := g.randomGerror()
		if g.thorough && i%2 == 0 {
			c.two, c.only1, c.prev = true, true, "moretypes"
		}
		switch i % 5 {
		case 1:
			c.two, c.split = true, 2
		case 3:
			c.out = "errs_gen.go"
		}
		ge = append(ge, c)
	}
	// hand-written helpers in the definition file that call generated methods (toPrimaryType)
	ge = append(ge, &gerrorCase{helpers: true, fields: []gerrField{{"Code", "int", "pc"}, {"Also", "string", "c"}}})
	if g.thorough {
		ge = append(ge, &gerrorCase{helpers: true, two: true, skip: true, custom: true, file: "error", fields: []gerrField{{"Stat", "status", "pc"}, {"When", "dur", "c"}}})
	}
	for _, c := range ge {
		var req []string
		for _, fl := range c.fields {
			if fl.tag == "" {
				continue
			}
			t := fl.tag
			if strings.HasPrefix(t, "n:") {
				t = strings.SplitN(t, ":", 3)[2]
			}
			req = append(req, fl.name+":"+t)
		}
		kk := k
		if (c.prev != "" || c.helpers) && !g.thorough {
			kk = 1
		}
		ls := lines14(c.header(), kk, strings.TrimSpace("go_ gerror fields "+strings.Join(req, " ")))
		kOf[ls[0]] = kk
		add(hx.Case{Lines: ls, Domain: true, Nontrivial: len(req) >= 2, Tags: []string{"gerror"}})
	}
	// genum: two duplicate groups with traits, two active imports, two types
	gn := []*genumCase{
		{n: 3, under: "int", shape: "dup2", file: "enum", traits: cols("ustr,dur,fmode"), opts: [5]bool{true, true, true, false, false}},
		{n: 3, under: "uint8", shape: "two", file: "num", traits: cols("dur+p,fmode,label"), opts: [5]bool{true, true, true, true, false}},
		{n: 17, under: "int", shape: "dup", file: "colors", opts: [5]bool{true, false, true, false, false}},
	}
	// several duplicated values per enum: aliases that become the primary name without a trait row
	// of their own (AAlias<i>), aliases that do not (AZed<i>), next to values with a single name
	gn = append(gn,
		&genumCase{n: 9, under: "int", shape: "alias", traits: cols("ustr,uint"), opts: [5]bool{true, true, true, false, false}},
		&genumCase{n: 3, under: "int", shape: "plain", traits: cols("ustr+p,label"), opts: [5]bool{false, false, true, false, false}, prev: "allon"})
	// the enum types and the local trait types declared in another file than the constants; an
	// output file named by the caller
	gn = append(gn,
		&genumCase{n: 3, under: "int", shape: "two", split: 2, traits: cols("label+p,dur,level"), opts: [5]bool{true, true, true, false, false}},
		&genumCase{n: 3, under: "uint8", shape: "plain", out: "enums_gen.go", file: "enum", traits: cols("ustr+p,fmode"), opts: [5]bool{true, true, true, false, false}})
	for i := 0; i < r.N(nrand); i++ {
		c := g.randomGenum()
		if g.thorough {
			switch i % 7 {
			case 3:
				c.split = 2
			case 5:
				c.out = "enums_gen.go"
			}
			switch i % 3 {
			case 0:
				if len(c.traits) > 0 && c.n >= 3 {
					c.shape = "alias"
				}
			case 1:
				c.prev = "allon"
			}
		}
		gn = append(gn, c)
	}
	// hand-written helpers in the definition file that call the generated API (IsValid, String,
	// Parse<Type>): they do not type-check until the first generation has happened
	gn = append(gn, &genumCase{n: 3, under: "int", shape: "plain", helpers: true, traits: cols("ustr+p,dur"), opts: [5]bool{true, true, true, false, false}})
	if g.thorough {
		gn = append(gn,
			&genumCase{n: 2, under: "uint8", shape: "two", helpers: true, file: "enum", traits: cols("label+p"), opts: [5]bool{true, false, true, true, false}},
			&genumCase{n: 4, under: "int32", shape: "plain", helpers: true, out: "enums_gen.go", opts: [5]bool{false, false, false, false, true}})
	}
	for _, c := range gn {
		kk := k
		if c.shape == "alias" {
			kk = k + 1 // 12+ generations where an order dependence would sit
		} else if (c.prev != "" || c.helpers) && !g.thorough {
			kk = 1
		}
		ls := lines14(c.header(), kk)
		kOf[ls[0]] = kk
		if (c.shape == "plain" || c.shape == "two") && c.bad == "" {
			var req []string
			for i := c.n - 1; i >= 0; i-- {
				req = append(req, fmt.Sprintf("%d:AV%d", i, i))
			}
			ls = append(ls, "go_ genum values "+strings.Join(req, " "))
		}
		add(hx.Case{Lines: ls, Domain: true, Nontrivial: c.shape != "plain" || len(c.traits) >= 2 || c.n >= 2, Tags: []string{"genum", "genum:" + c.shape}})
	}
	// names that differ only by case under -caseInsensitive: in the domain only if the generator
	// handles them (its output builds); the pinned generator writes two equal cases -> a C13 matter
	collide := &genumCase{n: 7, under: "int", shape: "collide", file: "genum", traits: cols("ustr"), opts: [5]bool{true, true, true, true, false}}
	{
		ls := lines14(collide.header(), k)
		kOf[ls[0]] = k
		add(hx.Case{Lines: ls, Domain: false, Nontrivial: true, Tags: []string{"genum", "genum:collide"}})
	}
	// out of domain: the CLI started WITHOUT PWD in its environment (go generate always sets it):
	// the source path stays relative, and the pinned FindFAST then takes enum.genum.go for enum.go
	{
		c := &genumCase{n: 2, under: "int", shape: "plain", file: "enum", opts: [5]bool{true, true, true, false, false}}
		ls := lines14(c.header()+" nopwd=t", 1)
		kOf[ls[0]] = 1
		add(hx.Case{Lines: ls, Domain: false, Nontrivial: true, Tags: []string{"ood"}})
	}
	// observe the cases with a few workers (the in-process runs are serialised: they chdir)
	{
		var wg sync.WaitGroup
		var omu sync.Mutex
		ch := make(chan hx.Case)
		for i := 0; i < 4; i++ {
			wg.Add(1)
			go func() {
				defer wg.Done()
				for c := range ch {
					kk := k
					if v, ok := kOf[c.Lines[0]]; ok {
						kk = v
					}
					o := w.observe14(c.Lines[0], kk)
					omu.Lock()
					m.obs[c.Lines[0]+"#"+strconv.Itoa(kk)] = o
					omu.Unlock()
				}
			}()
		}
		for _, c := range queue {
			ch <- c
		}
		close(ch)
		wg.Wait()
	}
	for _, c := range queue {
		if strings.Contains(c.Lines[0], "shape=collide") {
			if o := m.obs[c.Lines[0]+"#"+strconv.Itoa(kOf[c.Lines[0]])]; o != nil && o.compiles {
				c.Domain = true
			}
			r.Res.Extra["case_collision_in_domain"] = c.Domain
		}
		r.Add(c)
	}
	// one-process sessions: SEVERAL different definitions from different packages generated one
	// after the other inside this process, each compared with a separate-process generation.
	// Same-spelled trait types: `Pa` first without, then with its own unmarshalers; `Pb` the other
	// way round (a process-wide memo can only be wrong for the second of a pair).
	{
		opts := [5]bool{true, true, true, false, false}
		others := []string{
			strings.TrimPrefix((&gsortCase{fields: []gsortField{{"A", "int", []string{"ByA,1"}}, {"B", "string", []string{"*ByBP,1"}}}}).header(), "case gg "),
			strings.TrimPrefix((&gerrorCase{fields: []gerrField{{"Code", "int", "pc"}}}).header(), "case gg "),
			strings.TrimPrefix((&genumCase{n: 2, under: "int", shape: "plain", traits: cols("label+p,dur"), opts: opts}).header(), "case gg "),
		}
		if g.thorough {
			for i := 0; i < r.N(20); i++ {
				others = append(others, strings.TrimPrefix(g.randomGenum().header(), "case gg "),
					strings.TrimPrefix(g.randomGsort().header(), "case gg "), strings.TrimPrefix(g.randomGerror().header(), "case gg "))
			}
		}
		r.Rng.Shuffle(len(others), func(i, j int) { others[i], others[j] = others[j], others[i] })
		pair := func(kind string) string {
			return strings.TrimPrefix((&genumCase{n: 2, under: "int", shape: "plain", traits: cols(kind + "+p"), opts: opts}).header(), "case gg ")
		}
		seq := []string{pair("pa0"), others[0], pair("pb1"), pair("pa1")}
		seq = append(seq, others[1:]...)
		seq = append(seq, pair("pb0"))
		ls := []string{"case go_ session"}
		isOther := map[string]bool{}
		for i, d := range others {
			isOther[d] = i < 3 || i%4 == 0
		}
		for _, d := range seq {
			if isOther[d] {
				// one generator value used three times and once more after a failed Parse
				ls = append(ls, "go_ reuse "+d)
			} else {
				ls = append(ls, "go_ inproc "+d)
			}
		}
		r.Add(hx.Case{Lines: ls, Domain: true, Nontrivial: true, Tags: []string{"session"}})
	}
	// chains: a later generation depends on what an earlier one of the SAME process left in the
	// package directory (chain.go)
	{
		ls := []string{"case go_ session chains",
			"go_ inproc chain kind=enumtrait order=ab o=tttff",
			"go_ inproc chain kind=enumtrait order=ba o=tttff",
			"go_ inproc chain kind=edit gen=gsort steps=2"}
		if g.thorough {
			ls = append(ls, "go_ inproc chain kind=edit gen=gsort", "go_ inproc chain kind=edit gen=gerror", "go_ inproc chain kind=edit gen=genum")
			for _, o := range []string{"tfftf", "ftttf", "fttff", "tftff", "ttttt"} {
				ls = append(ls, "go_ inproc chain kind=enumtrait order=ab o="+o, "go_ inproc chain kind=enumtrait order=ba o="+o)
			}
		}
		r.Add(hx.Case{Lines: ls, Domain: true, Nontrivial: true, Tags: []string{"session", "chain"}})
	}
	r.Res.Extra["generator_runs"] = w.genRuns
	r.Res.Extra["rounds_per_case"] = k
	r.Res.Extra["runs_per_round"] = "2-3 separate processes (fresh, previous output present, a third generation where the caller names the output file; GOMAXPROCS unset/1/2/8 in turn) + 2 in this process (fresh, previous output present)"
	r.Finish()
}

var _ = sort.Strings

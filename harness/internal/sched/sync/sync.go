// Package sync mirrors the parts of sync used by /repo; Lock is one scheduler step per attempt
// (a blocked attempt is a stutter step), Unlock is one step.
package sync

import (
	gosync "sync"

	"verif/harness/internal/sched"
)

type Mutex struct{ held bool }

func (m *Mutex) Lock() {
	for {
		op := &sched.Op{Kind: "lock", Obj: m}
		scheduled := sched.Yield(op)
		if !m.held {
			m.held = true
			op.OK = true
			return
		}
		op.Kind = "blocked"
		if !scheduled {
			// called from outside the scheduled threads (set-up code, or the harness observing
			// state between steps) while a paused thread holds the mutex: waiting would never end
			panic("sched/sync: Lock on a mutex held by a paused thread, from outside the scheduler")
		}
	}
}

func (m *Mutex) TryLock() bool {
	op := &sched.Op{Kind: "lock", Obj: m}
	sched.Yield(op)
	if !m.held {
		m.held = true
		op.OK = true
		return true
	}
	op.Kind = "blocked"
	return false
}

func (m *Mutex) Unlock() {
	op := &sched.Op{Kind: "unlock", Obj: m}
	sched.Yield(op)
	if !m.held {
		panic("sync: unlock of unlocked mutex")
	}
	m.held = false
}

// RWMutex is modelled as a plain mutex (readers exclude each other too: fewer behaviours are
// never explored as violations of mutual exclusion, only as less concurrency).
type RWMutex struct{ Mutex }

func (m *RWMutex) RLock()         { m.Lock() }
func (m *RWMutex) RUnlock()       { m.Unlock() }
func (m *RWMutex) TryRLock() bool { return m.TryLock() }
func (m *RWMutex) RLocker() gosync.Locker {
	return rlocker{m}
}

type rlocker struct{ m *RWMutex }

func (r rlocker) Lock()   { r.m.RLock() }
func (r rlocker) Unlock() { r.m.RUnlock() }

// pass-throughs for things that are not scheduling points of the modelled code
type (
	Once      = gosync.Once
	WaitGroup = gosync.WaitGroup
	Pool      = gosync.Pool
	Map       = gosync.Map
	Locker    = gosync.Locker
	Cond      = gosync.Cond
)

func NewCond(l gosync.Locker) *gosync.Cond                     { return gosync.NewCond(l) }
func OnceFunc(f func()) func()                                 { return gosync.OnceFunc(f) }
func OnceValue[T any](f func() T) func() T                     { return gosync.OnceValue(f) }
func OnceValues[T1, T2 any](f func() (T1, T2)) func() (T1, T2) { return gosync.OnceValues(f) }

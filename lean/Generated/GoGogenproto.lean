import Model.GoPrelude
/-! REGENERATED on every run by harness/cmd/go2lean -spec gogenproto from gogenproto/gen/generate.go. Do not edit. -/
namespace Generated.GoGogenproto

structure DirEntry (S : Type) where
  name : S
  isDir : Bool
  isRegular : Bool

inductive WalkRet where
  | nil
  | skipDir
  | err (e : String)
deriving DecidableEq, Repr

def WalkRet.ofErr : Option String → WalkRet
  | none => .nil
  | some e => .err e

structure Generate (S : Type) where
  InputDir : S
  ProtocPath : S
  Recurse : Bool
  VTProto : Bool
  GRPC : Bool
  Include : List S

structure Env (S : Type) where
  lit : String → S
  cat : S → S → S
  eq : S → S → Bool
  stringsCut : S → S → S × S × Bool
  stringsContains : S → S → Bool
  filepathAbs : S → Go.M S
  filepathRel : S → S → Go.M S
  filepathDir : S → S
  filepathJoin : List S → S
  filepathExt : S → S
  packageNameFromPath : S → Go.M S
  scanLines : S → Go.M (List S)
  walkDir : S → (S → DirEntry S → Option String → List S → Go.M (List S × WalkRet)) → List S →
    Go.M (List S × Option String)

variable {S : Type}

def findProtos_fn (env : Env S) (g : Generate S) (recurse : Bool) (pathname : S) (d : DirEntry S)
    (err : Option String) (protoList : List S) : Go.M (List S × WalkRet) := do
  let mut protoList := protoList
  if (err.isSome || env.eq pathname (env.lit ".") || env.eq pathname g.InputDir) then
    return (protoList, WalkRet.ofErr err)
  else
    if (d.isDir && (!recurse)) then
      return (protoList, WalkRet.skipDir)
  if d.isRegular then
    if env.eq (env.filepathExt d.name) (env.lit ".proto") then
      protoList := protoList ++ [pathname]
  return (protoList, WalkRet.nil)

def findProtos (env : Env S) (g : Generate S) (dir : S) (recurse : Bool) : Go.M (List S) := do
  let mut protoList : List S := []
  let w1 ← env.walkDir dir (findProtos_fn env g recurse) protoList
  protoList := w1.1
  let err : Option String := w1.2
  match err with
  | none => return protoList
  | some e => throw e

def protoFileHasGoPackage (env : Env S) (path : S) : Go.M Bool := do
  let lines ← env.scanLines path
  for line in lines do
    if env.stringsContains line (env.lit "option go_package =") then
      return true
  return false

def run (env : Env S) (g : Generate S) : Go.M (S × List S) := do
  let paths ← findProtos env g g.InputDir g.Recurse
  let mut args : List S := [env.lit "--go_out=.", env.lit "--go_opt=paths=source_relative", env.lit "--fatal_warnings"]
  if g.VTProto then
    args := args ++ [env.lit "--go-vtproto_out=.", env.lit "--go-vtproto_opt=paths=source_relative,features=marshal+unmarshal+size+equal+clone+pool"]
  if g.GRPC then
    args := args ++ [env.lit "--go-grpc_out=.", env.lit "--go-grpc_opt=paths=source_relative"]
  let includePaths : List S := [g.InputDir] ++ g.Include
  for pathAndMaybePkg in includePaths do
    let c1 := env.stringsCut pathAndMaybePkg (env.lit "=")
    let path : S := c1.1
    let pkgPrefix : S := c1.2.1
    let hasPkgPrefix : Bool := c1.2.2
    let includePath ← env.filepathAbs path
    args := args ++ [env.cat (env.lit "-I=") includePath]
    let protoImportPaths ← findProtos env g includePath true
    for path in protoImportPaths do
      let hasGoPackage ← protoFileHasGoPackage env path
      if hasGoPackage then
        continue
      let relPath ← env.filepathRel includePath path
      let mut pkg : S := env.lit ""
      if hasPkgPrefix then
        pkg := env.filepathJoin [pkgPrefix, env.filepathDir relPath]
      else
        pkg ← env.packageNameFromPath (env.filepathDir path)
      let mapping : S := env.cat (env.cat relPath (env.lit "=")) pkg
      args := args ++ [env.cat (env.lit "--go_opt=M") mapping]
      if g.VTProto then
        args := args ++ [env.cat (env.lit "--go-vtproto_opt=M") mapping]
      if g.GRPC then
        args := args ++ [env.cat (env.lit "--go-grpc_opt=M") mapping]
  args := args ++ paths
  let mut path : S := env.lit "protoc"
  if (!(env.eq g.ProtocPath (env.lit ""))) then
    path := g.ProtocPath
  return (path, args)

end Generated.GoGogenproto

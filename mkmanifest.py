#!/usr/bin/env python3
"""Regenerates MANIFEST.json from props.py (claimed checks) and properties.jsonl (the rest -> not_applicable)."""
import json, os, sys
ROOT = os.path.dirname(os.path.abspath(__file__))
sys.path.insert(0, ROOT)
from props import PROPS, NOT_CLAIMED
ids = [json.loads(l)["id"] for l in open(os.path.join(ROOT, "properties.jsonl"))]
checks = []
for i in ids:
    if i not in PROPS:
        continue
    c = PROPS[i]
    checks.append(dict(
        property_id=i,
        quick_cmd="./check %s quick" % i,
        thorough_cmd="./check %s thorough" % i,
        evidence_file="/verif/evidence/%s.json" % i,
        replay_cmd_template="./check %s --replay {path}" % i,
        engine="lean4+correspondence",
        level_claimed=dict(category="proof", text=c["level_text"], design_ref=c.get("design_ref", "DESIGN.md section 6, " + i)),
        level_note=c["level_note"],
        technique=c["technique"],
    ))
na = [dict(property_id=i, reason=NOT_CLAIMED.get(i, "check not built yet (work in progress; DESIGN.md section 10)")) for i in ids if i not in PROPS]
m = dict(
    version=1,
    setup_cmd="./setup.sh",
    hooks=dict(guard="verif", enable="none needed: instrumented copies of /repo sources are produced at run time by the harness (DESIGN.md section 7)",
               baseline_off_cmd="./baseline_off.sh", source_commits=[], add_only=True),
    engines=[dict(name="lean4+correspondence", path="/verif/check", serves_properties=[c["property_id"] for c in checks],
                  kind_free_text="Lean 4 theorems over executable models (lean/), tied to /repo by regenerated facts and by differential execution of model and implementation through a line protocol (harness/)")],
    checks=checks,
    not_applicable=na,
    notes="See DESIGN.md. Every check: L1 lake build + axiom audit of Properties/<id>.lean, L2 correspondence of the Lean model with /repo's working tree, L3 search on breakage.",
)
json.dump(m, open(os.path.join(ROOT, "MANIFEST.json"), "w"), indent=1)
print("claimed:", [c["property_id"] for c in checks])

import Lemmas.GoStack
import Generated.GoGerrorStack
import Properties.C15Tie
/-!
# C15, tie A by translation: `gerror/stack.go` as translated on this run = the model

`Generated/GoGerrorStack.lean` is rewritten from /repo's `gerror/stack.go` by
`harness/cmd/go2lean -spec gerrorstack` on every run: `StackElem.SourceInfo`, `StackElem.Metric`,
`getCurrentPackage`, `Stack.NearestExternal`, `Stack.String` and `makeStack`.  What they take from
the runtime is a parameter (`Env`: the pc `runtime.Caller(1)` reports inside `getCurrentPackage`,
the pcs `runtime.Callers` finds, `pcToStackElem`); `strings.Split/Join/HasPrefix/TrimSuffix` and
`strconv.Itoa` have their meaning on character lists (`Model/GoStrings.lean`).

* `go_sourceInfo_eq`, `go_metric_eq`: for EVERY frame (any name, file, line) the translated
  `SourceInfo` / `Metric` do not panic and return what the model's `sourceInfo` / `metric` return
  on the frame's name - the derived-source text is now tied to the code, not mirrored by hand.
* `go_getCurrentPackage_eq`, `go_nearestExternal_eq`: for every non-empty stack, the translated
  `NearestExternal` picks the frame the model's `nearestExternal` picks.
* `go_makeStack_eq`: the slicing/append logic around `runtime.Callers` returns the first `depth`
  frames the runtime found (for every runtime answer), `go_stackString_eq`: the text of a stack.
* `go_cloneBase_source_eq`: the translated `CloneBase` (C15Tie) run with the TRANSLATED stack
  functions (`stackEnv`) - not the model's - returns on name/message/source/detail tag/stack names
  what the model `cloneBase` returns, for every call-site frame list; `go_source_derived_unless_base`
  restates the source clause of C15 for that code.

A change to stack.go changes the generated definitions, and these proofs are re-checked against it.
-/
set_option linter.unusedSectionVars false
namespace C15Stack
open Generated.GoGerrorStack Go Go.Strings GoStack
open GErrClone hiding Str makeStack

variable {π : Type} [Inhabited π]

/-! ## SourceInfo, Metric -/

/-- **`StackElem.SourceInfo` as translated = the model's `sourceInfo`**, for every frame. -/
theorem go_sourceInfo_eq (e : StackElem) : StackElem.SourceInfo e = pure (sourceInfo e.Name) := by
  unfold StackElem.SourceInfo sourceInfo
  simp only [show Go.str "/" = ['/'] from rfl, show Go.str "." = ['.'] from rfl, split_single]
  rw [intSub_of_le (splitOn_length_pos _ _)]
  simp only [pure_bind, listGet_last _ (splitOn_ne_nil _ _) []]
  have hts : ∀ s p, Strings.trimSuffix s p = GErrClone.trimSuffix s p := fun _ _ => rfl
  rw [hts, show Go.str "[...]" = "[...]".toList from rfl]
  generalize hv : splitOn '.' (GErrClone.trimSuffix ((splitOn '/' e.Name).getLastD []) "[...]".toList) = vals
  have hne : vals ≠ [] := hv ▸ splitOn_ne_nil _ _
  have hpos : 1 ≤ vals.length := by
    cases vals with
    | nil => exact absurd rfl hne
    | cons => simp
  simp only [ge_iff_le, hpos, decide_true, if_true, listGet_zero' _ hne [], listSlice_len _ hpos, pure_bind]
  rw [forIn_cut (fun v => Strings.hasPrefix v (Go.str "func") || v == Go.str "")]
  · simp only [pure_bind]
    congr 2
    congr 1
    funext v
    show (!(List.isPrefixOf (Go.str "func") v || v == Go.str "")) = _
    cases v <;> rfl
  · intro i a hi
    simp only []
    by_cases hp : (Strings.hasPrefix a (Go.str "func") || a == Go.str "") = true
    · simp only [hp, if_true]
      rw [listSlice_zero _ hi]; rfl
    · simp [hp]

/-- **`StackElem.Metric` as translated = the model's `metric`**, for every frame: the nested
`outer:` loop is `dropRepeats`. -/
theorem go_metric_eq (e : StackElem) : StackElem.Metric e = pure (metric e.Name) := by
  unfold StackElem.Metric metric
  rw [go_sourceInfo_eq]
  simp only [pure_bind]
  generalize sourceInfo e.Name = si
  obtain ⟨pkg, rest⟩ := si
  simp only []
  have hloop : ∀ body : Nat → List Str × Bool → Go.M (ForInStep (List Str × Bool)),
      (∀ i, (hi : i < rest.length) → body i (rest, false) =
        if rest[i] ∈ rest.take i then pure (.done (rest.take i, true)) else pure (.yield (rest, false))) →
      ∃ b, forIn (List.range' 1 (rest.length - 1)) (rest, false) body = pure (dropRepeats rest, b) := by
    intro body hb
    cases hr : rest with
    | nil => exact ⟨false, by simp [dropRepeats, dropRepeatsAux]⟩
    | cons x xs =>
      have := forIn_firstRepeat body rest (rest, false) (fun i => (rest.take i, true)) hb dropRepeatsAux
        dropRepeatsAux_nil dropRepeatsAux_cons (rest.length - 1) 1 (by simp [hr]; omega)
      rw [← hr, this]
      have hd : rest.take 1 ++ dropRepeatsAux (rest.take 1) (rest.drop 1) = dropRepeats rest := by
        simp [hr, dropRepeats, dropRepeatsAux]
      rw [hd]
      split
      · exact ⟨true, by unfold dropRepeats; rw [← dropRepeatsAux_prefix]⟩
      · rename_i hlt
        refine ⟨false, ?_⟩
        have := dropRepeatsAux_prefix [] rest
        unfold dropRepeats at hlt ⊢
        rw [List.take_of_length_le (by omega)] at this
        rw [this]
  suffices hs : ∀ body : Nat → List Str × Bool → Go.M (ForInStep (List Str × Bool)),
      (∀ i, (hi : i < rest.length) → body i (rest, false) =
        if rest[i] ∈ rest.take i then pure (.done (rest.take i, true)) else pure (.yield (rest, false))) →
      (do let s ← forIn (List.range' 1 (rest.length - 1)) (rest, false) body
          pure (pkg ++ Go.str ":" ++ join s.fst (Go.str ":")) : Go.M Str)
        = pure (pkg ++ [':'] ++ joinWith [':'] (dropRepeats rest)) by
    exact hs _ (by
    intro i hi
    rw [listGet_lt _ _ hi]
    simp only [pure_bind, Nat.sub_zero]
    rw [forIn_prefix_search _ rest rest[i] (rest, false) (rest.take i, true) i (Nat.le_of_lt hi) (by
      intro j hj
      simp only [listGet_lt rest j (Nat.lt_trans hj hi), pure_bind]
      by_cases hc : (rest[i] == rest[j]) = true
      · simp only [hc, if_true]
        rw [listSlice_zero _ (Nat.le_of_lt hi)]; rfl
      · simp [hc])]
    simp only [pure_bind]
    split <;> simp)
  intro body hbody
  obtain ⟨b, hb⟩ := hloop body hbody
  rw [hb]
  simp [join_eq, Go.str]

/-! ## getCurrentPackage, NearestExternal -/

/-- `getCurrentPackage` for any caller: the caller's function name up to its last `.` (it never
takes the `len(splitName) == 0` exit) -/
theorem go_getCurrentPackage_eq (env : Env π) :
    getCurrentPackage env
      = pure (joinWith ['.'] (splitOn '.' (env.pcToStackElem env.callerPC).Name).dropLast, true) := by
  unfold getCurrentPackage
  simp only [show Go.str "." = ['.'] from rfl, split_single]
  generalize hv : splitOn '.' (env.pcToStackElem env.callerPC).Name = parts
  have hne : parts ≠ [] := hv ▸ splitOn_ne_nil _ _
  have hpos : 1 ≤ parts.length := by
    cases parts with
    | nil => exact absurd rfl hne
    | cons => simp
  have h0 : (parts.length == 0) = false := by simp; omega
  simp only [h0, Bool.false_eq_true, if_false, intSub_of_le hpos, pure_bind,
    listSlice_zero parts (Nat.sub_le _ _), join_eq, List.dropLast_eq_take]

/-- the package prefix `NearestExternal` tests against, for a given runtime -/
def pkgOf (env : Env π) : Str := joinWith ['.'] (splitOn '.' (env.pcToStackElem env.callerPC).Name).dropLast

/-- `Stack.NearestExternal` as translated: the first frame whose name does not start with the
prefix, else `s[0]` (which panics on the empty stack) -/
theorem go_nearestExternal_find (env : Env π) (s : List StackElem) :
    Stack.NearestExternal env s =
      match s.find? (fun e => !(List.isPrefixOf (pkgOf env) e.Name)) with
      | some e => pure e
      | none => Go.listGet s 0 := by
  unfold Stack.NearestExternal
  rw [go_getCurrentPackage_eq]
  simp only [pure_bind, if_true]
  rw [forIn_find (fun e => !(List.isPrefixOf (pkgOf env) e.Name))]
  · simp only [pure_bind]
    generalize List.find? _ s = r
    cases r <;> rfl
  · intro a; rfl

/-- the runtime reports `Stack.NearestExternal` as the function calling `getCurrentPackage` -/
def CallerIsNearestExternal (env : Env π) : Prop :=
  (env.pcToStackElem env.callerPC).Name = nearestExternalFuncName

/-- **`Stack.NearestExternal` as translated = the model's `nearestExternal`** on the frame names,
for every non-empty stack (any files and lines). -/
theorem go_nearestExternal_eq (env : Env π) (hc : CallerIsNearestExternal env) (s : List StackElem)
    (hs : s ≠ []) :
    (·.Name) <$> Stack.NearestExternal env s = pure (nearestExternal (s.map (·.Name))) := by
  rw [go_nearestExternal_find]
  have hp : pkgOf env = currentPackage := by unfold pkgOf currentPackage; rw [hc]
  unfold nearestExternal
  rw [hp, List.find?_map]
  cases hf : s.find? (fun e => !(List.isPrefixOf currentPackage e.Name)) with
  | some e =>
    have : List.find? ((fun e => !currentPackage.isPrefixOf e) ∘ fun x => x.Name) s = some e := hf
    simp [this]
  | none =>
    have : List.find? ((fun e => !currentPackage.isPrefixOf e) ∘ fun x => x.Name) s = none := hf
    cases s with
    | nil => exact absurd rfl hs
    | cons x xs => simp [this, Go.listGet]

/-- `s.NearestExternal().Metric()` as `CloneBase` calls it -/
def nearestExternalMetric (env : Env π) (s : List StackElem) : Go.M Str := do
  let e ← Stack.NearestExternal env s
  StackElem.Metric e

theorem go_nearestExternalMetric_eq (env : Env π) (hc : CallerIsNearestExternal env) (s : List StackElem)
    (hs : s ≠ []) :
    nearestExternalMetric env s = pure (metric (nearestExternal (s.map (·.Name)))) := by
  have h := go_nearestExternal_eq env hc s hs
  unfold nearestExternalMetric
  cases hn : Stack.NearestExternal env s with
  | error m => rw [hn] at h; cases h
  | ok e =>
    rw [hn] at h
    have he : e.Name = nearestExternal (s.map (·.Name)) := by
      have := h; simp only [Functor.map, Except.map] at this
      injection this
    show StackElem.Metric e = _
    rw [go_metric_eq, he]

/-! ## makeStack, Stack.String -/

/-- **the pure part of `makeStack`**: whatever `runtime.Callers` finds after `skip` frames, the
function returns the first `depth` of them, resolved by `pcToStackElem`, and does not panic. -/
theorem go_makeStack_eq (env : Env π) (depth skip : Nat) :
    Generated.GoGerrorStack.makeStack env depth skip
      = pure (((env.callers skip).take depth).map env.pcToStackElem) := by
  unfold Generated.GoGerrorStack.makeStack
  simp only [fillPrefix, List.length_replicate]
  generalize env.callers skip = found
  have hn : min found.length depth ≤ (found.take depth ++ (List.replicate depth default).drop found.length).length := by
    simp only [List.length_append, List.length_take, List.length_drop, List.length_replicate]; omega
  rw [listSlice_zero _ hn]
  simp only [pure_bind]
  have hlen : (found.take depth).length = min found.length depth := by rw [List.length_take]; omega
  have htake : (found.take depth ++ (List.replicate depth (default : π)).drop found.length).take (min found.length depth)
      = found.take depth := by
    rw [← hlen]; exact List.take_left' rfl
  rw [htake, ← hlen]
  generalize found.take depth = pcs
  simp only [bind_pure]
  refine forIn_fill env.pcToStackElem default pcs _ ?_
  intro i st hi hst
  simp only [listGet_lt pcs i hi, pure_bind, Go.listSet, hst, hi, if_true]

/-- one frame of `Stack.String`: `\n<name>\n\t<file>:<line>` -/
def frameText (e : StackElem) : Str :=
  ['\n'] ++ e.Name ++ ['\n', '\t'] ++ e.File ++ [':'] ++ Strings.itoa e.LineNumber

/-- **`Stack.String` as translated**: the frames' texts in order, nothing else. -/
theorem go_stackString_eq (s : List StackElem) : Stack.String s = pure (s.flatMap frameText) := by
  unfold Stack.String
  simp only []
  rw [GoLoop.forIn_yield _ (fun sb e => sb ++ frameText e) (fun _ => True) (fun _ _ _ => trivial)
    (by intro a b _; simp [frameText, Go.str, List.append_assoc]) s [] trivial]
  simp only [pure_bind]
  congr 1
  suffices h : ∀ acc : Str, List.foldl (fun sb e => sb ++ frameText e) acc s = acc ++ s.flatMap frameText by
    simpa using h []
  induction s with
  | nil => simp
  | cons e s ih => intro acc; simp [ih, List.append_assoc]

/-! ## CloneBase with the translated stack functions -/

open Generated.GoCloneBase GoCloneBase

variable {ι : Type} [DecidableEq ι]

/-- the value of a translated call; the theorems above show every call made below is `pure …` -/
def val {α : Type} [Inhabited α] : Go.M α → α
  | .ok a => a
  | .error _ => default

/-- `CloneBase`'s environment made of the TRANSLATED stack functions: `makeStack(t, defaultSkip)`,
`len(stack)`, `Stack(nil)` and `stack.NearestExternal().Metric()` over `Stack = []StackElem`. -/
def stackEnv (env : Generated.GoGerrorStack.Env π) : Generated.GoCloneBase.Env (List StackElem) where
  trimSpace := trimSpace
  makeStack := fun n => val (Generated.GoGerrorStack.makeStack env n defaultSkip)
  stackLen := List.length
  nilStack := []
  nearestExternalMetric := fun s => val (nearestExternalMetric env s)

/-- the runtime's answer at the call site: after `defaultSkip` frames (`runtime.Callers`,
`makeStack`, `CloneBase`, the factory method) come the caller's frames `fr` -/
def FramesAre (env : Generated.GoGerrorStack.Env π) (fr : Frames) : Prop :=
  (env.callers defaultSkip).map (fun pc => (env.pcToStackElem pc).Name) = fr.toList

/-- the five fields C15 talks about; of the stack, the frame names -/
def projS (g : GError ι (List StackElem)) : E :=
  { name := g.Name, msg := g.Message, src := g.Source, dtag := g.detailTag, stack := g.stack.map (·.Name) }

theorem projS_phSource (c : GError ι (List StackElem)) (s : Str) : projS (phSource c s) = withSource (projS c) s := by
  unfold phSource withSource
  by_cases h1 : s = [] <;> by_cases h2 : c.Source = [] <;> simp [h1, h2, projS, Go.str]

theorem projS_phDTag (c : GError ι (List StackElem)) (d : Str) : projS (phDTag c d) = withDTag (projS c) d := by
  unfold phDTag withDTag
  by_cases h1 : d = [] <;> by_cases h2 : c.detailTag = [] <;> simp [h1, h2, projS, Go.str]

theorem projS_phMsg (c : GError ι (List StackElem)) (e : Str) : projS (phMsg c (trimSpace e)) = withMsg (projS c) e := by
  unfold phMsg withMsg
  by_cases h1 : trimSpace e = [] <;> by_cases h2 : c.Message = [] <;> simp [h1, h2, projS, Go.str]

theorem projS_phRef (inil err : ι) (base c : GError ι (List StackElem)) : projS (phRef inil err base c) = projS c := by
  unfold phRef; split <;> rfl

theorem projS_phSrcErr (inil e : ι) (base c : GError ι (List StackElem)) : projS (phSrcErr inil e base c) = projS c := by
  unfold phSrcErr; split <;> rfl

theorem stackEnv_makeStack (env : Generated.GoGerrorStack.Env π) (fr : Frames) (hf : FramesAre env fr) (n : Nat) :
    ((stackEnv env).makeStack n).map (·.Name) = fr.toList.take n := by
  show (val (Generated.GoGerrorStack.makeStack env n defaultSkip)).map (·.Name) = _
  rw [go_makeStack_eq]
  show (((env.callers defaultSkip).take n).map env.pcToStackElem).map (·.Name) = _
  rw [← hf, List.map_map, List.map_take]
  rfl

theorem stackEnv_metric (env : Generated.GoGerrorStack.Env π) (hc : CallerIsNearestExternal env) (fr : Frames)
    (hf : FramesAre env fr) (n : Nat) (hn : 0 < n) :
    (stackEnv env).nearestExternalMetric ((stackEnv env).makeStack n) = metric (nearestExternal (fr.toList.take n)) := by
  have hm := stackEnv_makeStack env fr hf n
  have hne : (stackEnv env).makeStack n ≠ [] := by
    intro h
    rw [h] at hm
    cases n with
    | zero => omega
    | succ n => simp [Frames.toList] at hm
  show val (nearestExternalMetric env _) = _
  rw [go_nearestExternalMetric_eq env hc _ hne, hm]
  rfl

theorem projS_stack (env : Generated.GoGerrorStack.Env π) (hc : CallerIsNearestExternal env) (fr : Frames)
    (hf : FramesAre env fr) (c : GError ι (List StackElem)) (st : StackType) :
    projS (if skipStack (stackEnv env) c st.depth then c else phStack (stackEnv env) c st.depth)
      = withStack (projS c) st fr := by
  have h4 := stackEnv_metric env hc fr hf 4 (by omega)
  have h16 := stackEnv_metric env hc fr hf 16 (by omega)
  have h32 := stackEnv_metric env hc fr hf 32 (by omega)
  have m16 := stackEnv_makeStack env fr hf 16
  have m32 := stackEnv_makeStack env fr hf 32
  have hlen : (stackEnv env).stackLen = List.length := rfl
  have hnil : (stackEnv env).nilStack = [] := rfl
  unfold skipStack phStack withStack
  rcases h1 : c.stack with _ | ⟨x, xs⟩ <;> by_cases h2 : c.Source = [] <;> cases st <;>
    simp [h1, h2, projS, Go.str, hlen, hnil, GErrClone.makeStack, NoStack, SourceStack, StackType.depth,
      h4, h16, h32, m16, m32]

/-- **The translated `CloneBase` run with the translated stack functions = the model**: for every
runtime whose answer at the call site is the frame list `fr` (any files, lines and program
counters), every base error, stack type and string arguments, the result has - on
name/message/source/detail tag and the stack's frame names - exactly the model's `cloneBase`, and
nothing panics.  In particular the derived `Source` is computed by the translated
`makeStack`, `NearestExternal` and `Metric`. -/
theorem go_cloneBase_source_eq (env : Generated.GoGerrorStack.Env π) (hc : CallerIsNearestExternal env)
    (fr : Frames) (hf : FramesAre env fr) (inil err baseRef srcError : ι) (base : GError ι (List StackElem))
    (st : StackType) (dTag source extMsg : Str) :
    projS <$> CloneBase (stackEnv env) inil err base baseRef st.depth dTag source extMsg srcError
      = pure (cloneBase (projS base) st dTag source extMsg fr) := by
  rw [go_cloneBase_pure]
  simp only [map_pure]
  congr 1
  unfold pureCB cloneBase
  simp only []
  rw [projS_stack env hc fr hf, projS_phSrcErr, projS_phRef]
  show withStack (projS (phMsg _ (trimSpace extMsg))) st fr = _
  rw [projS_phMsg, projS_phDTag, projS_phSource]
  rfl

/-- **A source is derived from the caller whenever none was given, except by `Base`** - for the
translated code: a factory without source, a method call `c` whose arguments `gerror.go` hands to
`CloneBase` as `method_wiring` says, a caller outside the package prefix.  The translated
`CloneBase` with the translated stack functions returns an error whose `Source` is empty for
`Base` and otherwise is what the translated `Metric` makes of the caller's frame (never empty). -/
theorem go_source_derived_unless_base (env : Generated.GoGerrorStack.Env π) (hc : CallerIsNearestExternal env)
    (c : Call) (hf : FramesAre env c.frames) (inil err baseRef srcError : ι)
    (base : GError ι (List StackElem)) (hst : base.stack = []) (hsrc : base.Source = [])
    (ho : CallerOutside c) (hg : c.srcArg = []) :
    ∃ g, CloneBase (stackEnv env) inil err base baseRef (wiring c.m).stack.depth
          (evalArg (wiring c.m).dtag c) (evalArg (wiring c.m).src c) (evalMsg (wiring c.m).msg c) srcError = pure g ∧
      (c.m = .base → g.Source = []) ∧
      (c.m ≠ .base → g.Source ≠ [] ∧
        ∀ top : StackElem, top.Name = c.frames.top → StackElem.Metric top = pure g.Source) := by
  have h := go_cloneBase_source_eq env hc c.frames hf inil err baseRef srcError base (wiring c.m).stack
    (evalArg (wiring c.m).dtag c) (evalArg (wiring c.m).src c) (evalMsg (wiring c.m).msg c)
  rw [go_cloneBase_pure] at h ⊢
  refine ⟨_, rfl, ?_⟩
  simp only [map_pure] at h
  have hE : projS (pureCB (stackEnv env) inil err base baseRef (wiring c.m).stack.depth
      (evalArg (wiring c.m).dtag c) (evalArg (wiring c.m).src c) (evalMsg (wiring c.m).msg c) srcError)
      = step (projS base) c := by
    injection h
  have hsrcE := congrArg E.src hE
  have hmain := GErrClone.source_derived_unless_base (projS base) (by simp [projS, hst]) (by simp [projS, hsrc]) c ho hg
  rw [← hsrcE] at hmain
  change (_ : Str) = _ ∧ _ at hmain
  constructor
  · intro hb; simpa [projS, hb] using hmain.1
  · intro hb
    refine ⟨by simpa [projS] using hmain.2 hb, ?_⟩
    intro top htop
    rw [go_metric_eq, htop]
    have := hmain.1
    simp only [hb, if_false] at this
    exact congrArg pure this.symm

/-- the hypotheses are satisfiable: a runtime whose pcs are the frames themselves -/
example (fr : Frames) : ∃ env : Generated.GoGerrorStack.Env StackElem,
    CallerIsNearestExternal env ∧ FramesAre env fr :=
  ⟨{ callerPC := { Name := nearestExternalFuncName, File := [], LineNumber := 0 },
     callers := fun _ => fr.toList.map (fun n => { Name := n, File := [], LineNumber := 0 }),
     pcToStackElem := id }, rfl, by simp [FramesAre, List.map_map, Function.comp_def]⟩

end C15Stack

import Model.GErrClone
/-! GENERATED on every run by harness/cmd/extract-gerror from gerror/gen/gerror.gotmpl of the checked
tree — do not edit.  What the generated extension types' factory methods hand to `CloneBase`. -/
namespace Generated.GerrorTmpl
open GErrClone

def rows : List (String × Row) := [
  ("Base", { sig := [], stack := .noStack, dtag := .empty, src := .empty, msg := .empty, err := .nil, shortCircuit := false }),
  ("SourceOnly", { sig := [], stack := .sourceStack, dtag := .empty, src := .empty, msg := .empty, err := .nil, shortCircuit := false }),
  ("Stack", { sig := [], stack := .defaultStack, dtag := .empty, src := .empty, msg := .empty, err := .nil, shortCircuit := false }),
  ("Src", { sig := [Ty.string], stack := .sourceStack, dtag := .empty, src := .param 0, msg := .empty, err := .nil, shortCircuit := false }),
  ("DTag", { sig := [Ty.string], stack := .sourceStack, dtag := .param 0, src := .empty, msg := .empty, err := .nil, shortCircuit := false }),
  ("Msg", { sig := [Ty.string, Ty.variadicAny], stack := .sourceStack, dtag := .empty, src := .empty, msg := .sprintf 0 1, err := .nil, shortCircuit := false }),
  ("SrcDTagMsg", { sig := [Ty.string, Ty.string, Ty.string, Ty.variadicAny], stack := .sourceStack, dtag := .param 1, src := .param 0, msg := .sprintf 2 3, err := .nil, shortCircuit := false }),
  ("SrcDTag", { sig := [Ty.string, Ty.string], stack := .sourceStack, dtag := .param 1, src := .param 0, msg := .empty, err := .nil, shortCircuit := false }),
  ("SrcMsg", { sig := [Ty.string, Ty.string, Ty.variadicAny], stack := .sourceStack, dtag := .empty, src := .param 0, msg := .sprintf 1 2, err := .nil, shortCircuit := false }),
  ("DTagMsg", { sig := [Ty.string, Ty.string, Ty.variadicAny], stack := .sourceStack, dtag := .param 0, src := .empty, msg := .sprintf 1 2, err := .nil, shortCircuit := false }),
  ("SrcS", { sig := [Ty.string], stack := .defaultStack, dtag := .empty, src := .param 0, msg := .empty, err := .nil, shortCircuit := false }),
  ("DTagS", { sig := [Ty.string], stack := .defaultStack, dtag := .param 0, src := .empty, msg := .empty, err := .nil, shortCircuit := false }),
  ("MsgS", { sig := [Ty.string, Ty.variadicAny], stack := .defaultStack, dtag := .empty, src := .empty, msg := .sprintf 0 1, err := .nil, shortCircuit := false }),
  ("SrcDTagMsgS", { sig := [Ty.string, Ty.string, Ty.string, Ty.variadicAny], stack := .defaultStack, dtag := .param 1, src := .param 0, msg := .sprintf 2 3, err := .nil, shortCircuit := false }),
  ("SrcDTagS", { sig := [Ty.string, Ty.string], stack := .defaultStack, dtag := .param 1, src := .param 0, msg := .empty, err := .nil, shortCircuit := false }),
  ("SrcMsgS", { sig := [Ty.string, Ty.string, Ty.variadicAny], stack := .defaultStack, dtag := .empty, src := .param 0, msg := .sprintf 1 2, err := .nil, shortCircuit := false }),
  ("DTagMsgS", { sig := [Ty.string, Ty.string, Ty.variadicAny], stack := .defaultStack, dtag := .param 0, src := .empty, msg := .sprintf 1 2, err := .nil, shortCircuit := false }),
  ("Convert", { sig := [Ty.error], stack := .sourceStack, dtag := .empty, src := .empty, msg := .origErr 0, err := .param 0, shortCircuit := true }),
  ("ConvertS", { sig := [Ty.error], stack := .defaultStack, dtag := .empty, src := .empty, msg := .origErr 0, err := .param 0, shortCircuit := true })
]

/-- per method: the template conditions (`{{if …}}`) that guard the stanza -/
def guards : List (String × List String) := [
  ("Base", []),
  ("SourceOnly", []),
  ("Stack", []),
  ("Src", []),
  ("DTag", []),
  ("Msg", []),
  ("SrcDTagMsg", []),
  ("SrcDTag", []),
  ("SrcMsg", []),
  ("DTagMsg", []),
  ("SrcS", []),
  ("DTagS", []),
  ("MsgS", []),
  ("SrcDTagMsgS", []),
  ("SrcDTagS", []),
  ("SrcMsgS", []),
  ("DTagMsgS", []),
  ("Convert", ["if not $.SkipConvertGen"]),
  ("ConvertS", ["if not $.SkipConvertGen"])
]

/-- every stanza ends in `return e.toPrimaryType(clone)` with `clone` the CloneBase result -/
def allReturnToPrimary : Bool := true

/-- `toPrimaryType`: `&T{GError: *gerr, <clone fields>: e.<field>}` -/
def toPrimaryCopiesBase : Bool := true
def toPrimaryCloneFieldsFromReceiver : Bool := true
def toPrimaryOtherFields : Nat := 0

/-- the parts `Error()` appends, in order -/
def errorParts : List String := ["name", "dtag", "source", "print-fields", "message", "stack"]

end Generated.GerrorTmpl

import Model.Gencommon
import Generated.GoGencommonIface
import Lemmas.GoLoop
import Lemmas.GencommonMerge
import Properties.C07Tie
import Properties.C11Tie
import Properties.C19
/-!
# C19 (b), tie A by translation: `namedTypeToInterface` as translated on this run = the model's merge
-/
set_option linter.unusedSectionVars false
set_option linter.unusedSimpArgs false
set_option linter.unusedVariables false
namespace C19Merge
open Generated.GoGencommonIface Gencommon GoLoop

variable {S σ τ κ ρ π : Type} [Inhabited σ] [Inhabited κ]

/-! ## the type graph seen as the model's embedding tree -/

/-- the methods `namedTypeToInterface` ranges over: those of the named type, or, if it has none
and is an interface type, the interface's -/
def ownOf (g : Graph σ) (t : Nat) : List (Func σ) :=
  if (g t).methods.length == 0 then
    match (g t).underlying with
    | .iface ms => ms
    | _ => (g t).methods
  else (g t).methods

def fieldsOf (g : Graph σ) (t : Nat) : List Field :=
  match (g t).underlying with
  | .struct fs => fs
  | _ => []

/-- the embedded fields the code recurses into, in field order; `none` if an embedded field is a
pointer to something that is not a named type (the code dereferences a nil `*Interface` there) -/
def targets : List Field → Option (List Nat)
  | [] => some []
  | f :: fs =>
    if !f.embedded then targets fs
    else match f.typ with
      | .pointer (.named id) => (targets fs).map (id :: ·)
      | .pointer .other => none
      | .named id => (targets fs).map (id :: ·)
      | .other => targets fs

/-- the model's own-method list of type `t`: name, and what `visit` needs (the type and the
`*types.Func`) -/
def ownM (g : Graph σ) (t : Nat) : List (Name × (Nat × Func σ)) :=
  (ownOf g t).map (fun f => (f.name, (t, f)))

mutual
/-- `T` is the unfolding of the graph at `t` (it exists iff no embedding cycle is reachable from
`t` and no embedded pointer field points to an unnamed type) -/
def Unf (g : Graph σ) : Nat → Ty Nat (Nat × Func σ) → Prop
  | t, .mk self own emb =>
    self = t ∧ own = ownM g t ∧ ∃ ids, targets (fieldsOf g t) = some ids ∧ UnfL g ids emb
def UnfL (g : Graph σ) : List Nat → List (Ty Nat (Nat × Func σ)) → Prop
  | ids, [] => ids = []
  | ids, T :: Ts => ∃ id rest, ids = id :: rest ∧ Unf g id T ∧ UnfL g rest Ts
end

/-- go/types: `Exported()` is decided by the name -/
def ExportedOK (g : Graph σ) : Prop := ∀ t, ∀ f ∈ ownOf g t, f.exported = exported f.name

/-! ## the model, instantiated with the parameters of the translation -/

def enterE (env : Env S σ τ κ ρ π) (s : S) (id : Nat) : S := (env.extractTypeRef s id).1

/-- `MethodFromSignature` followed by the three assignments to `Name`, `IsExported`, `Comments` -/
def visitE (env : Env S σ τ κ ρ π) (g : Graph σ) (s : S) (x : Nat × Func σ) : S × Method τ κ :=
  ((env.methodFromSignature s x.2.sig).1,
    { Name := x.2.name,
      Comments := env.commentsFromMethod (env.findPKgByName (g x.1).pkgPath).1 (g x.1).name x.2.name,
      IsExported := x.2.exported,
      rest := (env.methodFromSignature s x.2.sig).2.rest })

/-- `opts.Has(IncludePrivate)`, `opts.Has(IncludeEmbedded)` -/
def optsOf (opts : Go.U64) : Opts := ⟨BitSetM.has opts IncludePrivate, BitSetM.has opts IncludeEmbedded⟩

/-- the model's merge on the unfolding, with the translation's parameters -/
abbrev modelNti (env : Env S σ τ κ ρ π) (g : Graph σ) (opts : Go.U64) (s : S)
    (T : Ty Nat (Nat × Func σ)) : S × IfaceR (Method τ κ) :=
  nti (enterE env) (visitE env g) true (optsOf opts) s T

def key (m : Method τ κ) : Name × Method τ κ := (m.Name, m)

/-- what is compared: the methods exactly (in order), the ambiguous names as a set -/
def RelI (res : Interface τ κ ρ) (r : IfaceR (Method τ κ)) : Prop :=
  res.Methods.map key = r.methods ∧ ∀ x, x ∈ SetM.elems res.ambiguous ↔ x ∈ r.amb

def KeyOK (l : List (Name × Method τ κ)) : Prop := ∀ e ∈ l, e.1 = e.2.Name

/-- merge state of the translated code `(result, methodsToAdd, ignoreEmbeddedMethodsNamed)` against
the model's -/
def R (gs : Interface τ κ ρ × Go.KV Go.Str (Method τ κ) × Go.GMap Go.Str) (st : Merge (Method τ κ)) : Prop :=
  st.toAdd = gs.2.1 ∧ (∀ x, x ∈ st.ignore ↔ x ∈ SetM.elems gs.2.2) ∧
    (∀ x, x ∈ st.amb ↔ x ∈ SetM.elems gs.1.ambiguous)

/-! ## the two inner loops as pure steps -/

def goMergeStep (gs : Interface τ κ ρ × Go.KV Go.Str (Method τ κ) × Go.GMap Go.Str) (m : Method τ κ) :
    Interface τ κ ρ × Go.KV Go.Str (Method τ κ) × Go.GMap Go.Str :=
  if m.Name ∈ SetM.elems gs.2.2 then gs
  else if Go.kvHas gs.2.1 m.Name then
    ({ gs.1 with ambiguous := some (SetM.insert (SetM.elems gs.1.ambiguous) m.Name) },
      Go.kvDelete gs.2.1 m.Name, some (SetM.insert (SetM.elems gs.2.2) m.Name))
  else (gs.1, Go.kvSet gs.2.1 m.Name m, gs.2.2)

def goAmbStep (gs : Interface τ κ ρ × Go.KV Go.Str (Method τ κ) × Go.GMap Go.Str) (n : Go.Str) :
    Interface τ κ ρ × Go.KV Go.Str (Method τ κ) × Go.GMap Go.Str :=
  if n ∈ SetM.elems gs.2.2 then gs
  else ({ gs.1 with ambiguous := some (SetM.insert (SetM.elems gs.1.ambiguous) n) },
      Go.kvDelete gs.2.1 n, some (SetM.insert (SetM.elems gs.2.2) n))

theorem mem_insert (l : List Name) (a x : Name) : x ∈ SetM.insert l a ↔ x = a ∨ x ∈ l := by
  unfold SetM.insert
  by_cases h : a ∈ l
  · simp only [h, if_true]; constructor
    · exact Or.inr
    · rintro (rfl | h') <;> assumption
  · simp only [h, if_false, List.mem_append, List.mem_singleton]; exact Or.comm

theorem goMergeStep_R (gs) (st : Merge (Method τ κ)) (m : Method τ κ) (h : R (ρ := ρ) gs st) :
    R (goMergeStep gs m) (mergeStep st (key m)) := by
  obtain ⟨h1, h2, h3⟩ := h
  unfold goMergeStep mergeStep key
  by_cases hi : m.Name ∈ SetM.elems gs.2.2
  · have : m.Name ∈ st.ignore := (h2 _).2 hi
    simp only [hi, if_true, List.contains_iff_mem, this]
    exact ⟨h1, h2, h3⟩
  · have hn : ¬ m.Name ∈ st.ignore := fun h => hi ((h2 _).1 h)
    simp only [hi, if_false, List.contains_iff_mem, hn]
    rw [h1]
    by_cases hk : Go.kvHas gs.2.1 m.Name = true
    · have hk' : (gs.2.1.any fun e => decide (e.1 = m.Name)) = true := hk
      simp only [hk, hk', if_true]
      refine ⟨rfl, ?_, ?_⟩
      · intro x; simp only [SetM.elems, mem_insert, List.mem_cons, h2]
      · intro x; simp only [SetM.elems, mem_insert, List.mem_cons, h3]
    · have hk' : ¬ (gs.2.1.any fun e => decide (e.1 = m.Name)) = true := hk
      simp only [hk, hk', if_false]
      refine ⟨?_, h2, h3⟩
      simp only [Go.kvSet, hk, if_false, Bool.false_eq_true]

theorem goAmbStep_R (gs) (st : Merge (Method τ κ)) (n : Name) (h : R (ρ := ρ) gs st) :
    R (goAmbStep gs n) (ambStep st n) := by
  obtain ⟨h1, h2, h3⟩ := h
  unfold goAmbStep ambStep
  by_cases hi : n ∈ SetM.elems gs.2.2
  · have : n ∈ st.ignore := (h2 _).2 hi
    simp only [hi, if_true, List.contains_iff_mem, this]
    exact ⟨h1, h2, h3⟩
  · have hn : ¬ n ∈ st.ignore := fun h => hi ((h2 _).1 h)
    simp only [hi, if_false, List.contains_iff_mem, hn]
    rw [h1]
    refine ⟨rfl, ?_, ?_⟩
    · intro x; simp only [SetM.elems, mem_insert, List.mem_cons, h2]
    · intro x; simp only [SetM.elems, mem_insert, List.mem_cons, h3]

theorem foldl_goMergeStep_R (ms : List (Method τ κ)) : ∀ (gs) (st : Merge (Method τ κ)), R (ρ := ρ) gs st →
    R (ms.foldl goMergeStep gs) ((ms.map key).foldl mergeStep st) := by
  induction ms with
  | nil => intro gs st h; exact h
  | cons m ms ih => intro gs st h; exact ih _ _ (goMergeStep_R gs st m h)

theorem foldl_goAmbStep_R (ns : List Name) : ∀ (gs) (st : Merge (Method τ κ)), R (ρ := ρ) gs st →
    R (ns.foldl goAmbStep gs) (ns.foldl ambStep st) := by
  induction ns with
  | nil => intro gs st h; exact h
  | cons n ns ih => intro gs st h; exact ih _ _ (goAmbStep_R gs st n h)

/-- result fields other than `ambiguous` are untouched by the merge -/
theorem goMergeStep_methods (gs : Interface τ κ ρ × _ × _) (m : Method τ κ) :
    (goMergeStep gs m).1.Methods = gs.1.Methods := by
  unfold goMergeStep; split
  · rfl
  · split <;> rfl
theorem goAmbStep_methods (gs : Interface τ κ ρ × Go.KV Go.Str (Method τ κ) × _) (n : Name) :
    (goAmbStep gs n).1.Methods = gs.1.Methods := by
  unfold goAmbStep; split <;> rfl
theorem foldl_goMergeStep_methods (ms : List (Method τ κ)) : ∀ (gs : Interface τ κ ρ × _ × _),
    (ms.foldl goMergeStep gs).1.Methods = gs.1.Methods := by
  induction ms with
  | nil => intro gs; rfl
  | cons m ms ih => intro gs; rw [List.foldl_cons, ih, goMergeStep_methods]
theorem foldl_goAmbStep_methods (ns : List Name) :
    ∀ (gs : Interface τ κ ρ × Go.KV Go.Str (Method τ κ) × _),
    (ns.foldl goAmbStep gs).1.Methods = gs.1.Methods := by
  induction ns with
  | nil => intro gs; rfl
  | cons m ms ih => intro gs; rw [List.foldl_cons, ih, goAmbStep_methods]

/-! ## the model's `ambStep` fold only depends on WHICH names it is given -/

theorem foldl_ambStep_char {α : Type} (l : List Name) : ∀ (st : Merge α),
    (l.foldl ambStep st).toAdd = st.toAdd.filter (fun e => decide (e.1 ∈ st.ignore) || !decide (e.1 ∈ l)) ∧
    (∀ x, x ∈ (l.foldl ambStep st).ignore ↔ x ∈ st.ignore ∨ x ∈ l) ∧
    (∀ x, x ∈ (l.foldl ambStep st).amb ↔ x ∈ st.amb ∨ (x ∈ l ∧ x ∉ st.ignore)) := by
  induction l with
  | nil =>
    intro st
    refine ⟨?_, by simp, by simp⟩
    simp only [List.foldl_nil, List.not_mem_nil, decide_false, Bool.not_false, Bool.or_true]
    exact (List.filter_eq_self.2 (fun _ _ => rfl)).symm
  | cons n l ih =>
    intro st
    rw [List.foldl_cons]
    obtain ⟨i1, i2, i3⟩ := ih (ambStep st n)
    rw [i1]
    by_cases hn : n ∈ st.ignore
    · have hs : ambStep st n = st := by unfold ambStep; simp [hn]
      rw [hs] at i2 i3 ⊢
      refine ⟨?_, ?_, ?_⟩
      · apply List.filter_congr
        intro e _
        by_cases he : e.1 = n
        · simp [he, hn]
        · simp [he]
      · intro x; rw [i2]; simp only [List.mem_cons]
        constructor
        · rintro (h | h); exact Or.inl h; exact Or.inr (Or.inr h)
        · rintro (h | rfl | h); exact Or.inl h; exact Or.inl hn; exact Or.inr h
      · intro x; rw [i3]; simp only [List.mem_cons]
        constructor
        · rintro (h | ⟨h, h'⟩); exact Or.inl h; exact Or.inr ⟨Or.inr h, h'⟩
        · rintro (h | ⟨rfl | h, h'⟩); exact Or.inl h; exact absurd hn h'; exact Or.inr ⟨h, h'⟩
    · have hs : ambStep st n = ⟨n :: st.ignore, st.toAdd.filter (fun e => e.1 ≠ n), n :: st.amb⟩ := by
        unfold ambStep; simp [hn]
      rw [hs] at i2 i3 ⊢
      refine ⟨?_, ?_, ?_⟩
      · simp only [List.filter_filter]
        apply List.filter_congr
        intro e _
        by_cases he : e.1 = n
        · simp [he, hn]
        · simp [he]
      · intro x; rw [i2]; simp only [List.mem_cons]
        constructor
        · rintro ((rfl | h) | h); exact Or.inr (Or.inl rfl); exact Or.inl h; exact Or.inr (Or.inr h)
        · rintro (h | rfl | h); exact Or.inl (Or.inr h); exact Or.inl (Or.inl rfl); exact Or.inr h
      · intro x; rw [i3]; simp only [List.mem_cons]
        constructor
        · rintro ((rfl | h) | ⟨h, h'⟩)
          · exact Or.inr ⟨Or.inl rfl, hn⟩
          · exact Or.inl h
          · exact Or.inr ⟨Or.inr h, fun hx => h' (Or.inr hx)⟩
        · rintro (h | ⟨rfl | h, h'⟩)
          · exact Or.inl (Or.inr h)
          · exact Or.inl (Or.inl rfl)
          · by_cases hx : x = n
            · exact Or.inl (Or.inl hx)
            · exact Or.inr ⟨h, fun hc => hc.elim hx h'⟩

/-- `R` survives replacing the list of ambiguous names by one with the same members -/
theorem R_amb_congr (gs) (st : Merge (Method τ κ)) (l l' : List Name) (hl : ∀ x, x ∈ l ↔ x ∈ l')
    (h : R (ρ := ρ) gs (l.foldl ambStep st)) : R gs (l'.foldl ambStep st) := by
  obtain ⟨h1, h2, h3⟩ := h
  obtain ⟨a1, a2, a3⟩ := foldl_ambStep_char l st
  obtain ⟨b1, b2, b3⟩ := foldl_ambStep_char l' st
  refine ⟨?_, ?_, ?_⟩
  · rw [← h1, a1, b1]
    apply List.filter_congr
    intro e _
    simp only [hl]
  · intro x; rw [← h2, a2, b2, hl]
  · intro x; rw [← h3, a3, b3, hl]

/-! ## the loops of the translated function as folds -/

/-- one iteration of the own-method loop on `(ih, result)` -/
def ownStep (env : Env S σ τ κ ρ π) (g : Graph σ) (t : Nat) (opts : Go.U64)
    (st : S × Interface τ κ ρ) (f : Func σ) : S × Interface τ κ ρ :=
  if BitSetM.has opts IncludePrivate || f.exported then
    ((env.methodFromSignature st.1 f.sig).1,
      { st.2 with Methods := st.2.Methods ++ [(visitE env g st.1 (t, f)).2] })
  else st

theorem own_fold (env : Env S σ τ κ ρ π) (g : Graph σ) (t : Nat) (opts : Go.U64) (mz : List (Func σ)) :
    (∀ f ∈ mz, f.exported = exported f.name) → ∀ (s : S) (res : Interface τ κ ρ),
    mz.foldl (ownStep env g t opts) (s, res) =
      ((visitOwn (visitE env g) (optsOf opts) s (mz.map (fun f => (f.name, (t, f))))).1,
        { res with Methods := res.Methods ++
            (visitOwn (visitE env g) (optsOf opts) s (mz.map (fun f => (f.name, (t, f))))).2.map (·.2) }) := by
  induction mz with
  | nil => intro _ s res; simp [visitOwn]
  | cons f mz ih =>
    intro hexp s res
    have ih' := ih (fun f' h' => hexp f' (List.mem_cons_of_mem _ h'))
    have hf := hexp f List.mem_cons_self
    rw [List.foldl_cons, List.map_cons, visitOwn]
    have hk' : ((optsOf opts).priv || exported f.name) = (BitSetM.has opts IncludePrivate || f.exported) := by
      simp [optsOf, hf]
    rw [hk']
    by_cases hk : (BitSetM.has opts IncludePrivate || f.exported) = true
    · have hs : ownStep env g t opts (s, res) f = ((env.methodFromSignature s f.sig).1,
          { res with Methods := res.Methods ++ [(visitE env g s (t, f)).2] }) := by
        simp only [ownStep, hk, if_true]
      rw [hs, ih', if_pos hk]
      simp [visitE]
    · have hs : ownStep env g t opts (s, res) f = (s, res) := by
        simp only [ownStep, hk, if_false, Bool.false_eq_true]
      rw [hs, ih', if_neg hk]

theorem visitOwn_keyed (env : Env S σ τ κ ρ π) (g : Graph σ) (t : Nat) (o : Opts) (mz : List (Func σ)) :
    ∀ (s : S), ((visitOwn (visitE env g) o s (mz.map (fun f => (f.name, (t, f))))).2.map (·.2)).map key =
      (visitOwn (visitE env g) o s (mz.map (fun f => (f.name, (t, f))))).2 := by
  induction mz with
  | nil => intro s; simp [visitOwn]
  | cons f mz ih =>
    intro s
    rw [List.map_cons, visitOwn]
    split
    · simp only [List.map_cons, ih]; rfl
    · exact ih s

/-- one iteration of `for _, m := range result.Methods { ignoreEmbeddedMethodsNamed.Add(m.Name) }` -/
def ignStep (s : Go.GMap Go.Str) (m : Method τ κ) : Go.GMap Go.Str :=
  some (SetM.insert (SetM.elems s) m.Name)

theorem ign_fold (ms : List (Method τ κ)) : ∀ (s : Go.GMap Go.Str) (x : Name),
    x ∈ SetM.elems (ms.foldl ignStep s) ↔ x ∈ SetM.elems s ∨ x ∈ ms.map (·.Name) := by
  induction ms with
  | nil => intro s x; simp
  | cons m ms ih =>
    intro s x
    rw [List.foldl_cons, ih]
    simp only [ignStep, SetM.elems, mem_insert, List.map_cons, List.mem_cons]
    constructor
    · rintro ((h | h) | h); exact Or.inr (Or.inl h); exact Or.inl h; exact Or.inr (Or.inr h)
    · rintro (h | h | h); exact Or.inl (Or.inr h); exact Or.inl (Or.inl h); exact Or.inr h

/-- the last loop: `result.Methods = append(result.Methods, m)` -/
def addStep (r : Interface τ κ ρ) (m : Method τ κ) : Interface τ κ ρ :=
  { r with Methods := r.Methods ++ [m] }

theorem add_fold (ms : List (Method τ κ)) : ∀ (r : Interface τ κ ρ),
    ms.foldl addStep r = { r with Methods := r.Methods ++ ms } := by
  induction ms with
  | nil => intro r; simp
  | cons m ms ih => intro r; rw [List.foldl_cons, ih]; simp [addStep]

/-- both inner loops of one embedded field -/
def absorb (c : Interface τ κ ρ)
    (gs : Interface τ κ ρ × Go.KV Go.Str (Method τ κ) × Go.GMap Go.Str) :
    Interface τ κ ρ × Go.KV Go.Str (Method τ κ) × Go.GMap Go.Str :=
  (Go.mapKeys c.ambiguous).foldl goAmbStep (c.Methods.foldl goMergeStep gs)

abbrev LoopSt (S τ κ ρ : Type) := S × Interface τ κ ρ × Go.KV Go.Str (Method τ κ) × Go.GMap Go.Str

/-- one iteration of the loop over the struct's fields; `recF` is the recursive call -/
def fieldStep (recF : S → Nat → Go.M (S × Interface τ κ ρ)) (field : Field) (st : LoopSt S τ κ ρ) :
    Go.M (ForInStep (LoopSt S τ κ ρ)) :=
  if !field.embedded then pure (.yield st)
  else match field.typ with
    | .pointer (.named id) => do
      let r ← recF st.1 id
      pure (.yield (r.1, absorb r.2 st.2))
    | .pointer .other => throw "nil pointer dereference"
    | .named id => do
      let r ← recF st.1 id
      pure (.yield (r.1, absorb r.2 st.2))
    | .other => pure (.yield st)

/-- one step per embedded named field -/
def idStep (recF : S → Nat → Go.M (S × Interface τ κ ρ)) (id : Nat) (st : LoopSt S τ κ ρ) :
    Go.M (ForInStep (LoopSt S τ κ ρ)) := do
  let r ← recF st.1 id
  pure (.yield (r.1, absorb r.2 st.2))

theorem fields_as_targets (recF : S → Nat → Go.M (S × Interface τ κ ρ)) (fields : List Field) :
    ∀ (ids : List Nat) (st : LoopSt S τ κ ρ), targets fields = some ids →
    forIn fields st (fieldStep recF) = forIn ids st (idStep recF) := by
  induction fields with
  | nil => intro ids st h; simp [targets] at h; subst h; rfl
  | cons f fs ih =>
    intro ids st h
    rw [List.forIn_cons]
    unfold targets at h
    unfold fieldStep
    by_cases he : f.embedded = true
    · simp only [he, Bool.not_true, Bool.false_eq_true, if_false] at h ⊢
      cases hty : f.typ with
      | pointer e =>
        cases e with
        | named id =>
          simp only [hty, Option.map_eq_some_iff] at h ⊢
          obtain ⟨rest, hr, rfl⟩ := h
          rw [List.forIn_cons]
          unfold idStep
          simp only [bind_assoc, pure_bind]
          congr 1
          funext r
          exact ih rest _ hr
        | other => simp [hty] at h
      | named id =>
        simp only [hty, Option.map_eq_some_iff] at h ⊢
        obtain ⟨rest, hr, rfl⟩ := h
        rw [List.forIn_cons]
        unfold idStep
        simp only [bind_assoc, pure_bind]
        congr 1
        funext r
        exact ih rest _ hr
      | other =>
        simp only [hty, pure_bind] at h ⊢
        exact ih ids st h
    · have he' : f.embedded = false := by simpa using he
      simp only [he', Bool.not_false, if_true, pure_bind] at h ⊢
      exact ih ids st h

end C19Merge

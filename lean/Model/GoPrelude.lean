/-!
# Semantics of the Go fragment that `harness/cmd/go2lean` translates (core Lean only)

`go2lean` turns a Go function whose body stays inside a small imperative fragment (locals,
assignment, `for … range`, `if`, early `return`, map/slice primitives, bit and boolean operators)
into a Lean `do` block in the monad `Go.M`, statement by statement.  This file fixes what the
primitives of that fragment mean.  It is part of the trusted base of every theorem of the form
"generated function = hand-written model": the translator and these definitions are what stands
between the Go source and Lean.

* `M = Except String`: a run-time panic (`assignment to entry in nil map`, `index out of range`)
  is an error value, so "the translated function equals `pure (…)`" also says it cannot panic.
* `GMap α = Option (List α)`: `none` is the nil map, `some l` an allocated map with keys `l`.  Go
  leaves the iteration order of a map unspecified; `mapKeys` hands out the list as it is, and every
  theorem quantifies over ALL lists, i.e. over every order the runtime might choose.
* `Slice α = Option (List α)`: `none` is the nil slice.
* `U64 = BitVec 64`: `uint64` with wrap-around; a conversion `BitSet[T](x)` from a narrower
  unsigned type is zero extension, so flags arrive as the `U64` they convert to.
-/
namespace Go

abbrev M := Except String
abbrev U64 := BitVec 64
abbrev GMap (α : Type) := Option (List α)
abbrev Slice (α : Type) := Option (List α)

/-- Go `string` as the list of its characters (the models compare and concatenate, nothing else) -/
abbrev Str := List Char
/-- a string literal -/
def str (s : String) : Str := s.toList

variable {α : Type}

def mapElems : GMap α → List α
  | none => []
  | some l => l

/-- `m == nil` -/
def mapIsNil (m : GMap α) : Bool := m.isNone

/-- `make(map[K]V, cap)` -/
def mapMake (_cap : Nat) : GMap α := some []

/-- `len(m)` -/
def mapLen (m : GMap α) : Nat := (mapElems m).length

/-- `_, ok := m[k]` -/
def mapHas [DecidableEq α] (m : GMap α) (k : α) : Bool := decide (k ∈ mapElems m)

/-- `m[k] = v` for a map used as a set (the value carries no information): panics on nil -/
def mapSet [DecidableEq α] (m : GMap α) (k : α) : M (GMap α) :=
  match m with
  | none => throw "assignment to entry in nil map"
  | some l => pure (some (if k ∈ l then l else l ++ [k]))

/-- `delete(m, k)`: a no-op on the nil map -/
def mapDelete [DecidableEq α] (m : GMap α) (k : α) : GMap α :=
  match m with
  | none => none
  | some l => some (l.erase k)

/-- the keys in the order this walk of the map produces them -/
def mapKeys (m : GMap α) : List α := mapElems m

def sliceNil : Slice α := none

/-- `make([]T, n)` -/
def sliceMake [Inhabited α] (n : Nat) : Slice α := some (List.replicate n default)

def sliceElems : Slice α → List α
  | none => []
  | some l => l

/-- `len(s)` -/
def sliceLen (s : Slice α) : Nat := (sliceElems s).length

/-- `s[i] = v` -/
def sliceSet (s : Slice α) (i : Nat) (v : α) : M (Slice α) :=
  match s with
  | some l => if i < l.length then pure (some (l.set i v)) else throw "index out of range"
  | none => throw "index out of range"

/-- `xs[i]` on a slice seen as a list: panics out of range -/
def listGet [Inhabited α] (xs : List α) (i : Nat) : M α :=
  if i < xs.length then pure (xs.getD i default) else throw "index out of range"

/-- `xs[i] = v` on a slice seen as a list -/
def listSet (xs : List α) (i : Nat) (v : α) : M (List α) :=
  if i < xs.length then pure (xs.set i v) else throw "index out of range"

end Go

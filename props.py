"""Per-property configuration of ./check (which Lean modules hold the obligations, which
harness binaries run the correspondence, what is trusted)."""

GO_TRUST = "Go compiler/runtime; the harness (cmd/%s) and the Lean line-protocol driver, incl. their canonicalisation"

PROPS = {
    "C11": dict(
        title="set: BitSet is exact bit-set algebra and reports changes truthfully",
        lean_modules=["Properties.C11"],
        harness=[dict(bin="h-set")],
        trusted=[GO_TRUST % "h-set", "Go's conversion BitSet[T](item) zero-extends (language spec)"],
        assumptions=["flags enter the model already zero-extended to 64 bits (theorem mem_ofFlag covers every width <= 64)"],
        explanation="theorems over all BitVec 64 sets and all flag lists; correspondence exhaustive on the 8-bit flag type",
    ),
}

import Model.GoPreludeKV
import Generated.GoGenumValues
/-! REGENERATED on every run by harness/cmd/go2lean -spec genumgen from genum/gen/traits.go and genum/gen/generate.go.
Do not edit.  Each definition follows the Go function of the same name statement by statement.  What go/types
answers about a trait's type is an attribute of the descriptor (`GType`); a `for … range` over a map takes its
order from the parameter `walk`; a slice parameter the function writes into is returned in front of its results;
`fmt.Errorf` is its format string; `log.Printf` is dropped.
-/
set_option linter.unusedVariables false
namespace Generated.GoGenumGen
open Generated.GoGenumValues

/-- `go/types.BasicKind` -/
inductive BasicKind where
  | Invalid
  | Bool
  | Int
  | Int8
  | Int16
  | Int32
  | Int64
  | Uint
  | Uint8
  | Uint16
  | Uint32
  | Uint64
  | Uintptr
  | Float32
  | Float64
  | Complex64
  | Complex128
  | String
  | UnsafePointer
  | UntypedBool
  | UntypedInt
  | UntypedRune
  | UntypedFloat
  | UntypedComplex
  | UntypedString
  | UntypedNil
  deriving DecidableEq, Repr, Inhabited

/-- `type underlying int` and its constants -/
inductive Underlying where
  | unknown
  | stringUnderlying
  | uint64Underlying
  | int64Underlying
  | float64Underlying
  | float32Underlying
  deriving DecidableEq, Repr, Inhabited

/-- what the translated functions ask go/types about a `types.Type`: `basic` = `Underlying().(*types.Basic)`
(`none`: the assertion fails) with its `Kind()`; `typesImplements pkg name` = `types.Implements(T, I)` and
`gcTypeImplements pkg name` = `gencommon.TypeImplements(T, I)` for the interface `I` that
`gencommon.FindIFaceDef(pkg, name)` finds; `defaultTypeId` = the class of `types.Default(T)` under `types.Identical`; `isNil` = the interface value is nil
(then the other attributes mean nothing; the translated functions ask `== nil` before they use such a value) -/
structure GType where
  isNil : Bool
  basic : Option BasicKind
  defaultTypeId : Nat
  typesImplements : String → String → Bool
  gcTypeImplements : String → String → Bool
  deriving Inhabited

/-- `type TraitInstance struct` -/
structure GTraitInstance where
  OwningValue : GValue
  value : String
  variableName : String
  keyType : GType
  keyValue : String
  repeatsParseKey : Bool
  deriving Inhabited

/-- `type TraitDesc struct` -/
structure GTraitDesc where
  Name : String
  «Type» : GType
  TypeRef : String
  Parsable : Bool
  Traits : List GTraitInstance
  deriving Inhabited

/-- `func implementsJSONUnmarshaler(td *TraitDesc) bool` -/
def implementsJSONUnmarshaler (td : GTraitDesc) : Go.M (Bool) := do
  return (td.«Type».gcTypeImplements "encoding/json" "Unmarshaler")

/-- `func implementsYAMLUnmarshaler(td *TraitDesc) bool` -/
def implementsYAMLUnmarshaler (td : GTraitDesc) : Go.M (Bool) := do
  return (td.«Type».gcTypeImplements "gopkg.in/yaml.v3" "Unmarshaler")

/-- `func implementsTextUnmarshaler(td *TraitDesc) bool` -/
def implementsTextUnmarshaler (td : GTraitDesc) : Go.M (Bool) := do
  return (td.«Type».typesImplements "encoding" "TextUnmarshaler")

/-- `func (td *TraitDesc) extractUnderlying() (underlying, bool)` -/
def GTraitDesc.extractUnderlying (td : GTraitDesc) : Go.M (Underlying × Bool) := do
  let mut v : BasicKind := Option.getD td.«Type».basic default
  let mut ok : Bool := Option.isSome td.«Type».basic
  if (!ok) then
    return (Underlying.unknown, false)
  let tag1 : BasicKind := v
  if (decide (tag1 ∈ [BasicKind.UntypedInt, BasicKind.UntypedRune, BasicKind.Int, BasicKind.Int8, BasicKind.Int16, BasicKind.Int32, BasicKind.Int64])) then
    return (Underlying.int64Underlying, true)
  else
    if (decide (tag1 ∈ [BasicKind.Uint, BasicKind.Uint8, BasicKind.Uint16, BasicKind.Uint32, BasicKind.Uint64])) then
      return (Underlying.uint64Underlying, true)
    else
      if (decide (tag1 ∈ [BasicKind.Float32])) then
        return (Underlying.float32Underlying, true)
      else
        if (decide (tag1 ∈ [BasicKind.UntypedFloat, BasicKind.Float64])) then
          return (Underlying.float64Underlying, true)
        else
          if (decide (tag1 ∈ [BasicKind.String])) then
            return (Underlying.stringUnderlying, true)
          else
            pure ()
  return (Underlying.unknown, true)

/-- `func (td *TraitDesc) hasUnderlying(u underlying) bool` -/
def GTraitDesc.hasUnderlying (td : GTraitDesc) (u : Underlying) : Go.M (Bool) := do
  let p2 : Underlying × Bool := (← GTraitDesc.extractUnderlying td)
  let mut underlying : Underlying := p2.1
  let mut ok : Bool := p2.2
  if (!ok) then
    return false
  return (underlying == u)

/-- `func (s TraitDescs) getParsableUnderlying(u underlying, excluding func(*TraitDesc) bool) TraitDescs` -/
def GTraitDescs.getParsableUnderlying (s : List GTraitDesc) (u : Underlying) (excluding : (GTraitDesc → Go.M Bool)) : Go.M (List GTraitDesc) := do
  let mut out : List GTraitDesc := ([] : List GTraitDesc)
  for t in s do
    if (← Go.andThen (← Go.andThen t.Parsable (do return (← GTraitDesc.hasUnderlying t u))) (do return (!(← excluding t)))) then
      out := (out ++ [t])
  return out

/-- `func (s TraitDescs) GetParsableUnderlyingStringForJSON() TraitDescs` -/
def GTraitDescs.GetParsableUnderlyingStringForJSON (s : List GTraitDesc) : Go.M (List GTraitDesc) := do
  return (← GTraitDescs.getParsableUnderlying s Underlying.stringUnderlying implementsJSONUnmarshaler)

/-- `func (s TraitDescs) GetParsableUnderlyingFloat64ForJSON() TraitDescs` -/
def GTraitDescs.GetParsableUnderlyingFloat64ForJSON (s : List GTraitDesc) : Go.M (List GTraitDesc) := do
  return (← GTraitDescs.getParsableUnderlying s Underlying.float64Underlying implementsJSONUnmarshaler)

/-- `func (s TraitDescs) GetParsableUnderlyingFloat32ForJSON() TraitDescs` -/
def GTraitDescs.GetParsableUnderlyingFloat32ForJSON (s : List GTraitDesc) : Go.M (List GTraitDesc) := do
  return (← GTraitDescs.getParsableUnderlying s Underlying.float32Underlying implementsJSONUnmarshaler)

/-- `func (s TraitDescs) GetParsableUnderlyingInt64ForJSON() TraitDescs` -/
def GTraitDescs.GetParsableUnderlyingInt64ForJSON (s : List GTraitDesc) : Go.M (List GTraitDesc) := do
  return (← GTraitDescs.getParsableUnderlying s Underlying.int64Underlying implementsJSONUnmarshaler)

/-- `func (s TraitDescs) GetParsableUnderlyingUint64ForJSON() TraitDescs` -/
def GTraitDescs.GetParsableUnderlyingUint64ForJSON (s : List GTraitDesc) : Go.M (List GTraitDesc) := do
  return (← GTraitDescs.getParsableUnderlying s Underlying.uint64Underlying implementsJSONUnmarshaler)

/-- `func (s TraitDescs) GetParsableUnderlyingStringForYAML() TraitDescs` -/
def GTraitDescs.GetParsableUnderlyingStringForYAML (s : List GTraitDesc) : Go.M (List GTraitDesc) := do
  return (← GTraitDescs.getParsableUnderlying s Underlying.stringUnderlying implementsYAMLUnmarshaler)

/-- `func (s TraitDescs) GetParsableUnderlyingFloat64ForYAML() TraitDescs` -/
def GTraitDescs.GetParsableUnderlyingFloat64ForYAML (s : List GTraitDesc) : Go.M (List GTraitDesc) := do
  return (← GTraitDescs.getParsableUnderlying s Underlying.float64Underlying implementsYAMLUnmarshaler)

/-- `func (s TraitDescs) GetParsableUnderlyingFloat32ForYAML() TraitDescs` -/
def GTraitDescs.GetParsableUnderlyingFloat32ForYAML (s : List GTraitDesc) : Go.M (List GTraitDesc) := do
  return (← GTraitDescs.getParsableUnderlying s Underlying.float32Underlying implementsYAMLUnmarshaler)

/-- `func (s TraitDescs) GetParsableUnderlyingInt64ForYAML() TraitDescs` -/
def GTraitDescs.GetParsableUnderlyingInt64ForYAML (s : List GTraitDesc) : Go.M (List GTraitDesc) := do
  return (← GTraitDescs.getParsableUnderlying s Underlying.int64Underlying implementsYAMLUnmarshaler)

/-- `func (s TraitDescs) GetParsableUnderlyingUint64ForYAML() TraitDescs` -/
def GTraitDescs.GetParsableUnderlyingUint64ForYAML (s : List GTraitDesc) : Go.M (List GTraitDesc) := do
  return (← GTraitDescs.getParsableUnderlying s Underlying.uint64Underlying implementsYAMLUnmarshaler)

/-- `func (s TraitDescs) GetParsableUnderlyingStringForText() TraitDescs` -/
def GTraitDescs.GetParsableUnderlyingStringForText (s : List GTraitDesc) : Go.M (List GTraitDesc) := do
  return (← GTraitDescs.getParsableUnderlying s Underlying.stringUnderlying implementsTextUnmarshaler)

/-- `func (s TraitDescs) GetParsableJSONUnmarshalable() TraitDescs` -/
def GTraitDescs.GetParsableJSONUnmarshalable (s : List GTraitDesc) : Go.M (List GTraitDesc) := do
  let mut out : List GTraitDesc := ([] : List GTraitDesc)
  for t in s do
    if (← Go.andThen t.Parsable (do return (← implementsJSONUnmarshaler t))) then
      out := (out ++ [t])
  return out

/-- `func (s TraitDescs) GetParsableYAMLUnmarshalable() TraitDescs` -/
def GTraitDescs.GetParsableYAMLUnmarshalable (s : List GTraitDesc) : Go.M (List GTraitDesc) := do
  let mut out : List GTraitDesc := ([] : List GTraitDesc)
  for t in s do
    if (← Go.andThen t.Parsable (do return (← implementsYAMLUnmarshaler t))) then
      out := (out ++ [t])
  return out

/-- `func (s TraitDescs) GetParsableTextUnmarshalable() TraitDescs` -/
def GTraitDescs.GetParsableTextUnmarshalable (s : List GTraitDesc) : Go.M (List GTraitDesc) := do
  let mut out : List GTraitDesc := ([] : List GTraitDesc)
  for t in s do
    if (← Go.andThen t.Parsable (do return (← implementsTextUnmarshaler t))) then
      out := (out ++ [t])
  return out

/-- `func (td TraitDesc) InstanceOf(v Value) *TraitInstance` -/
def GTraitDesc.InstanceOf (td : GTraitDesc) (v : GValue) : Go.M (Option GTraitInstance) := do
  for i in List.range' 0 (List.length td.Traits) do
    if ((← Go.listGet td.Traits i).OwningValue.Name == v.Name) then
      if (← Go.listGet td.Traits i).repeatsParseKey then
        return none
      return (some (← Go.listGet td.Traits i))
  return none

/-- `func (t TraitInstance) Value() string` -/
def GTraitInstance.Value (t : GTraitInstance) : Go.M (String) := do
  if ((t.variableName != "") && (t.variableName != "_")) then
    return t.variableName
  return t.value

def validateParsableTraits_err1 : String := "Enum: %s cannot have parsableTrait %s because trait value %s is found in %s and %s. parsableByTrait values must be unique within the enum."
/-- `func validateParsableTraits(enumType string, traits TraitDescs) error` -/
def validateParsableTraits (enumType : String) (traits : List GTraitDesc) : Go.M (List GTraitDesc × Option String) := do
  let mut traits := traits
  let mut parsableTraitResults : Go.KV String String := ([] : Go.KV String String)
  let mut parseKeys : Go.KV String (List GType) := ([] : Go.KV String (List GType))
  for k3 in List.range' 0 (List.length traits) do
    let mut trait : GTraitDesc := (← Go.listGet traits k3)
    if trait.Parsable then
      for i in List.range' 0 (List.length trait.Traits) do
        let mut «instance» : GTraitInstance := (← Go.listGet trait.Traits i)
        let p4 : Option (String) := Go.kvGet parsableTraitResults «instance».value
        let mut parseTo : String := Option.getD p4 default
        let mut ok : Bool := Option.isSome p4
        if ok then
          if (parseTo != «instance».OwningValue.Name) then
            return (traits, (some validateParsableTraits_err1))
        parsableTraitResults := Go.kvSet parsableTraitResults «instance».value «instance».OwningValue.Name
        if «instance».keyType.isNil then
          continue
        let mut key : String := ((«instance».OwningValue.Name ++ "\x00") ++ «instance».keyValue)
        for seen in (Option.getD (Go.kvGet parseKeys key) default) do
          if (seen.defaultTypeId == «instance».keyType.defaultTypeId) then
            trait := { trait with Traits := (← Go.listSet trait.Traits i { (← Go.listGet trait.Traits i) with repeatsParseKey := true }) }
            traits ← Go.listSet traits k3 trait
        parseKeys := Go.kvSet parseKeys key ((Option.getD (Go.kvGet parseKeys key) default) ++ [«instance».keyType])
  return (traits, none)

/-- `func processDuplicates(values Values, traits TraitDescs, enumTypeName string)` -/
def processDuplicates (walk : List (Go.U64 × List GValue) → List (Go.U64 × List GValue)) (values : List GValue) (traits : List GTraitDesc) (enumTypeName : String) : Go.M (List GTraitDesc) := do
  let mut traits := traits
  if ((List.length values) == 0) then
    return traits
  let mut data : Go.KV Go.U64 (List GValue) := ([] : Go.KV Go.U64 (List GValue))
  for v in values do
    let p5 : Option (List GValue) := Go.kvGet data v.Value
    let mut duplicates : List GValue := Option.getD p5 default
    let mut ok : Bool := Option.isSome p5
    if ok then
      duplicates := (duplicates ++ [v])
    else
      duplicates := ([v] : List GValue)
    data := Go.kvSet data v.Value duplicates
  for duplicates in List.map Prod.snd (walk data) do
    let p6 : GValue × Bool := (← GValues.getPrimary duplicates)
    let mut primary : GValue := p6.1
    let mut safe : Bool := p6.2
    if (decide ((List.length duplicates) > 1)) then
      for i in List.range' 0 (List.length traits) do
        let mut td : GTraitDesc := (← Go.listGet traits i)
        traits ← Go.listSet traits i { (← Go.listGet traits i) with Traits := (List.filter (fun t => !((t.OwningValue.Value == primary.Value) && (t.OwningValue.Name != primary.Name))) td.Traits) }
    if safe then
      continue
    pure () -- log.Printf(…): writes to stderr only
  traits := Go.sortSort (fun a b => decide (a.Name < b.Name)) traits
  return traits

end Generated.GoGenumGen

"""Per-property configuration of ./check (which Lean modules hold the obligations, which
harness binaries run the correspondence, what is trusted)."""

GO_TRUST = "Go compiler/runtime; the harness (cmd/%s) and the Lean line-protocol driver, incl. their canonicalisation"

PROPS = {
    "C11": dict(
        title="set: BitSet is exact bit-set algebra and reports changes truthfully",
        lean_modules=["Properties.C11"],
        harness=[dict(bin="h-set")],
        trusted=[GO_TRUST % "h-set", "Go's conversion BitSet[T](item) zero-extends (language spec)"],
        assumptions=["flags enter the model already zero-extended to 64 bits (theorem mem_ofFlag covers every width <= 64)"],
        level_text="Machine-checked Lean 4 theorems (kernel-only axioms) over a BitVec 64 model that mirrors bit_set.go statement by statement: union/difference/intersection/subset characterisations, change flag <-> value changed, multi-argument = sequential, for every set, every flag list and every flag width. The model is tied to /repo by executing model and implementation on all 65536 (set,flag) pairs of an 8-bit flag type (all triples in the thorough tier) plus random wide calls and sequences.",
        level_note="Trusted: Lean kernel + propext/Quot.sound/Classical.choice as reported by #print axioms; the Go harness and Lean driver; Go's integer conversion semantics. The theorem is about the model; the exhaustive 8-bit correspondence and random 16/32/64-bit runs are what tie it to the code.",
        technique="Lean 4 proof (induction over flag lists, bitwise extensionality) + exhaustive model/implementation correspondence",
        explanation="theorems over all BitVec 64 sets and all flag lists; correspondence exhaustive on the 8-bit flag type",
    ),
    "C07": dict(
        title="set: Set is a mathematical set under every operation sequence",
        lean_modules=["Properties.C07"],
        harness=[dict(bin="h-set")],
        trusted=[GO_TRUST % "h-set", "Go's built-in map is a finite map (insert/delete/lookup/len/range)"],
        assumptions=["Has/HasAny are called with at least one argument (the quantifier); zero-argument calls are compared only in the out-of-domain stream"],
        level_text="Machine-checked Lean 4 refinement: the model of set.go (nil/allocated map as Option (List), every early return and changed-flag guard mirrored) refines the mathematical set for EVERY operation sequence of any length over any element type (refines_math_set, by induction over the op list from the no-duplicates invariant), with Has/HasAny/Slice characterisations, change-flag <-> membership-changed, and order independence of AddSet/RemoveSet over Go's map iteration order. Tied to /repo by differential execution of random op sequences on int/string/struct sets with a full membership probe after every mutation.",
        level_note="Trusted: Lean kernel + standard axioms; Go's built-in map; the Go harness and the Lean driver. The theorem is about the model; the correspondence (20k sequences quick, 600k thorough) ties it to set.go.",
        technique="Lean 4 proof (refinement to a mathematical set by induction over operation sequences) + differential correspondence on op histories",
        explanation="refinement theorem for all op sequences; correspondence on random histories",
    ),
    "C17": dict(
        title="set: JSON and YAML encodings of Set round-trip membership",
        lean_modules=["Properties.C17"],
        harness=[dict(bin="h-set")],
        trusted=[GO_TRUST % "h-set", "encoding/json and gopkg.in/yaml.v3 round-trip lists of the element types (hypothesis Codec.RoundTrips; observed by the correspondence run, not proved)"],
        assumptions=["the list codec round-trips the element type (no NaN floats); a literal YAML null decoded into a pre-filled set is yaml.v3 behaviour and out of domain"],
        level_text="Machine-checked Lean 4 theorems, parametric in the element list codec: Unmarshal(Marshal(s)) into any target is exactly target ∪ s (hence exact round trip into nil/empty targets, nil and empty sets included), the encoding is Slice() = each member once, nil exactly when empty. PARTIAL: the codec's own round-trip law is a hypothesis of the theorems, validated differentially (json and yaml.v3, standalone and as struct field, 7 element types incl. YAML-significant strings) rather than proved.",
        level_note="Trusted: Lean kernel + standard axioms; encoding/json and yaml.v3 (not modelled; their list round trip is the hypothesis RoundTrips); the Go harness and Lean driver.",
        technique="Lean 4 proof parametric in a codec law (reusing the C07 refinement lemmas) + differential correspondence through the real codecs",
        explanation="partial: codec law is a hypothesis; everything Set itself contributes is proved",
    ),
    "C16": dict(
        title="gconfig: env templates resolve exactly and only on selected branches",
        lean_modules=["Properties.C16"],
        harness=[dict(bin="h-tmpl")],
        trusted=[GO_TRUST % "h-tmpl",
                 "Go's regexp engine (RE2 leftmost-first semantics): the hand-written Lean matcher is compared differentially with regexp on the pattern literal extracted (go/ast) from gconfig/yaml_templates.go, it is not derived from the pattern",
                 "gopkg.in/yaml.v3 decoding of the generated documents (documents yaml.v3 does not round-trip are out of domain), os.LookupEnv/Setenv",
                 "the dimension reduction that runs before the templates is C03's subject; here only its one-dimension instance `select` is modelled and compared"],
        assumptions=["reading fixed in DESIGN.md section 8: a string not of the two documented forms (e.g. a default without `|`, or `|` without a default) is 'every other string' and must stay untouched",
                     "DEFAULT is non-empty, on one line (no LF), without blanks at either end; whitespace is RE2 \\s = space, tab, LF, CR, FF; 'surrounding double quotes stripped' = all leading and trailing \" removed (README: any \" characters are trimmed)",
                     "documents of the domain have no switch below a switch of the same dimension and no empty maps (both are C03 findings; generated only in the out-of-domain stream)"],
        level_text="Machine-checked Lean 4 theorems (kernel-only axioms). match_iff_grammar: for EVERY string, the matcher that mirrors the anchored pattern captures (NAME, DEFAULT) exactly when the string is `${{ env: NAME }}` / `${{ env: NAME | DEFAULT }}` with optional inner whitespace (sound and complete, grammar unambiguous); hence MatchAndResolve is exactly the property's four cases (resolveStr_meets_spec, spec_determines_resolveStr: set -> value, unset+default -> default with quotes stripped, unset -> error, every other string untouched). Documents: parseTemplatedElements is the pointwise lift over map values and list items (any depth), and FromBytes = reduce-then-substitute depends on the environment only through variables of templates on the branches selected by the dimension (load_only_selected_branches, load_fails_iff): an unset variable on an unselected branch cannot fail loading; the outcome does not depend on Go's map iteration order (resolveKvs_order_independent). The pinned-commit pattern (optional `|`) is kept as matchTemplateLegacy with decide-checked violation witnesses. Tied to /repo by differential execution: captures of the package's own pattern under Go's regexp, MatchAndResolve through FromBytes+Get[string] under unset/set/empty environments, and generated documents with one-dimension switches through FromBytes/Get.",
        level_note="Trusted: Lean kernel + standard axioms; Go's regexp engine and yaml.v3; the Go harness and the Lean driver. The matcher is a hand-written denotation of the pattern, tied to it by the differential run (random grammar strings and near-misses + all strings up to length 3 (quick) / 5 (thorough) over a 9-symbol alphabet spliced into 6 positions), not by a verified regex semantics. The dimension reduction is modelled for one dimension only (general case: C03).",
        technique="Lean 4 proof (list-splitting lemmas for the anchored pattern, structural/mutual induction over document trees) + differential correspondence against regexp and FromBytes/Get",
        explanation="matcher <-> documented grammar for all strings; substitution pointwise; selection-then-substitution only reads selected branches; legacy optional-`|` witnesses kept",
    ),
}

# properties not claimed, with the reason (kept current; see DESIGN.md)
NOT_CLAIMED = {}

import Model.GoPrelude
/-!
# Loop lemmas for translated Go code (`harness/cmd/go2lean`)

A Go `for … range` becomes `forIn` in the monad `Go.M`.  The two shapes below cover the loops of
the translated fragment; both are stated for an arbitrary loop body, so that the proof obligations
"generated function = hand-written model" only have to analyse ONE iteration (by case analysis and
`simp`), and do not depend on how the translator spells the body.
-/
namespace GoLoop
variable {α β : Type}

/-- A loop whose body never leaves early and cannot panic while the invariant `P` holds is a
left fold. -/
theorem forIn_yield (body : α → β → Go.M (ForInStep β)) (f : β → α → β) (P : β → Prop)
    (hP : ∀ b a, P b → P (f b a)) (h : ∀ a b, P b → body a b = pure (.yield (f b a)))
    (items : List α) (b : β) (hb : P b) :
    forIn items b body = pure (items.foldl f b) := by
  induction items generalizing b with
  | nil => rfl
  | cons a as ih =>
    simp only [List.forIn_cons, h a b hb, pure_bind, List.foldl_cons]
    exact ih _ (hP b a hb)

/-- A search loop: the body either leaves with a fixed state or carries on unchanged. -/
theorem forIn_search (body : α → β → Go.M (ForInStep β)) (p : α → Bool) (d b0 : β)
    (h : ∀ a, body a b0 = if p a then pure (.done d) else pure (.yield b0)) (items : List α) :
    forIn items b0 body = pure (if items.any p then d else b0) := by
  induction items with
  | nil => rfl
  | cons a as ih =>
    simp only [List.forIn_cons, h a, List.any_cons]
    by_cases hp : p a = true
    · simp [hp]
    · simp [hp, ih]

/-- Two folds over the same items whose states are related by `g` step by step. -/
theorem foldl_map_state {σ τ : Type} (g : σ → τ) (f : σ → α → σ) (f' : τ → α → τ)
    (h : ∀ s a, g (f s a) = f' (g s) a) (items : List α) (s : σ) :
    g (items.foldl f s) = items.foldl f' (g s) := by
  induction items generalizing s with
  | nil => rfl
  | cons a as ih => simp only [List.foldl_cons, ih, h]

end GoLoop

import Model.Gencommon
import Lemmas.GencommonMerge
import Lemmas.GencommonRefs
import Lemmas.GencommonBind
/-!
# C19 — gencommon: the interface rendered from FindInterface compiles and fits

(a) parameter naming, (b) embedded-method merge, (c) type references — each proved for ALL
signatures / embedding trees of any depth / type terms (helper lemmas in `Lemmas/GencommonMerge`
`Lemmas/GencommonRefs` and `Lemmas/GencommonBind`).  The clause "the rendered file is accepted by the Go compiler and
implemented by the original type" is observed by the correspondence run (`go build`), not proved
here; what is proved towards it: names distinct and valid, method names distinct, every rendered
method promoted by Go's selector rule, every rendered type reference denoting the identical type
under the active imports, and the import declaration printed for every active import binding the
qualifier the references use (whatever explicit names the target file gives its imports).
-/
namespace Gencommon

/-! ## (a) parameter naming -/

theorem num_inj {a b : Nat} (h : num a = num b) : a = b := by
  have := congrArg (fun l => Nat.ofDigitChars 10 l 0) h
  simpa [num] using this

theorem num_ne_nil (a : Nat) : num a ≠ [] := Nat.toDigits_ne_nil

theorem numbered_inj (p : Name) {a b : Nat} (h : p ++ num a = p ++ num b) : a = b :=
  num_inj (List.append_cancel_left h)

/-! ### the deduper as a finite map -/

theorem has_iff (d : Deduper) (k : Name) : d.has k = true ↔ k ∈ d.keys := by
  simp [Deduper.has, Deduper.keys]

theorem get?_isSome (d : Deduper) (k : Name) : (d.get? k).isSome = d.has k := by
  induction d with
  | nil => rfl
  | cons e d ih =>
    simp only [Deduper.get?, Deduper.has, List.find?_cons, List.any_cons] at *
    by_cases h : e.1 = k <;> simp [h, ih]

theorem get?_some_mem {d : Deduper} {k : Name} {v : Nat} (h : d.get? k = some v) : k ∈ d.keys := by
  rw [← has_iff, ← get?_isSome, h]; rfl

theorem get?_none_of_not_mem {d : Deduper} {k : Name} (h : k ∉ d.keys) : d.get? k = none := by
  have := get?_isSome d k
  rw [← has_iff] at h
  cases hg : d.get? k with
  | none => rfl
  | some v => rw [hg] at this; simp at this; exact absurd this.symm (by simpa using h)

theorem keys_put (d : Deduper) (k : Name) (v : Nat) : (d.put k v).keys = k :: d.keys := rfl

theorem get?_put (d : Deduper) (k k' : Name) (v : Nat) :
    (d.put k v).get? k' = if k = k' then some v else d.get? k' := by
  simp only [Deduper.get?, Deduper.put, List.find?_cons]
  by_cases h : k = k' <;> simp [h]

/-! ### the repaired candidate loop terminates on a free name -/

theorem exists_free (p : Name) : ∀ (n : Nat) (taken : List Name) (v : Nat), taken.length = n →
    ∃ w, v ≤ w ∧ w ≤ v + n ∧ p ++ num w ∉ taken := by
  intro n
  induction n with
  | zero =>
    intro taken v h
    have : taken = [] := List.eq_nil_of_length_eq_zero h
    exact ⟨v, Nat.le_refl _, Nat.le_refl _, by simp [this]⟩
  | succ n ih =>
    intro taken v h
    by_cases hm : p ++ num v ∈ taken
    · have hl : (taken.erase (p ++ num v)).length = n := by
        rw [List.length_erase_of_mem hm, h]; rfl
      obtain ⟨w, h1, h2, h3⟩ := ih _ (v + 1) hl
      refine ⟨w, by omega, by omega, ?_⟩
      intro hw
      apply h3
      have hne : p ++ num w ≠ p ++ num v := by
        intro e; have := numbered_inj p e; omega
      exact (List.mem_erase_of_ne hne).2 hw
    · exact ⟨v, Nat.le_refl _, by omega, hm⟩

theorem firstFree_spec (d : Deduper) (p : Name) : ∀ (fuel v : Nat),
    (∃ w, v ≤ w ∧ w < v + fuel ∧ p ++ num w ∉ d.keys) →
    p ++ num (firstFree d p fuel v) ∉ d.keys ∧ v ≤ firstFree d p fuel v := by
  intro fuel
  induction fuel with
  | zero => rintro v ⟨w, h1, h2, _⟩; omega
  | succ fuel ih =>
    rintro v ⟨w, h1, h2, h3⟩
    simp only [firstFree]
    by_cases hv : d.has (p ++ num v) = true
    · simp only [hv, if_true]
      have hne : w ≠ v := by
        intro e; subst e; exact h3 ((has_iff _ _).1 hv)
      have := ih (v + 1) ⟨w, by omega, by omega, h3⟩
      exact ⟨this.1, by omega⟩
    · simp only [hv]
      exact ⟨fun h => hv ((has_iff _ _).2 h), Nat.le_refl _⟩

theorem firstFree_free (d : Deduper) (p : Name) (v : Nat) :
    p ++ num (firstFree d p (d.length + 1) v) ∉ d.keys ∧ v ≤ firstFree d p (d.length + 1) v := by
  apply firstFree_spec
  obtain ⟨w, h1, h2, h3⟩ := exists_free p d.keys.length d.keys v rfl
  have : d.keys.length = d.length := by simp [Deduper.keys]
  exact ⟨w, h1, by omega, h3⟩

/-- what one call of the repaired `getSafeParamName` returns -/
theorem getSafe_cases (d : Deduper) (p : Name) (always : Bool) :
    (∃ w, (d.get? p).getD 0 ≤ w ∧ p ++ num w ∉ d.keys ∧
        getSafe d p always = (p ++ num w, d.put p (w + 1))) ∨
    (p ∉ d.keys ∧ getSafe d p always = (p, d.put p 0)) := by
  unfold getSafe
  by_cases h : ((d.get? p).isSome || always) = true
  · left
    have := firstFree_free d p ((d.get? p).getD 0)
    exact ⟨_, this.2, this.1, by simp only [h, if_true]⟩
  · right
    have h' : (d.get? p).isSome = false := by
      cases hh : (d.get? p).isSome <;> simp_all
    have hn : d.get? p = none := by
      cases hg : d.get? p <;> simp_all
    have ha : always = false := by cases always <;> simp_all
    refine ⟨?_, by simp [hn, ha]⟩
    intro hm
    rw [← has_iff, ← get?_isSome, h'] at hm
    exact absurd hm (by simp)

/-! ### invariant of the name-generation loops -/

def prefixes : List Name := [argP, retP, ctxP, errP]

theorem prefix_len {p : Name} (h : p ∈ prefixes) : p.length = 3 := by
  simp [prefixes, argP, retP, ctxP, errP] at h
  rcases h with rfl | rfl | rfl | rfl <;> rfl

/-- `U`: the user-chosen names of the signature, `G`: the names generated so far -/
structure Good (U : List Name) (d : Deduper) (G : List Name) : Prop where
  nodup : G.Nodup
  fresh : ∀ g ∈ G, g ∉ U
  users : ∀ u ∈ U, u ∈ d.keys
  shape : ∀ g ∈ G, g ∈ d.keys ∨
    ∃ p ∈ prefixes, ∃ w v, g = p ++ num w ∧ d.get? p = some v ∧ w < v
  form : ∀ g ∈ G, ∃ p ∈ prefixes, g = p ∨ ∃ w, g = p ++ num w

theorem good_step {U : List Name} {d : Deduper} {G : List Name} (h : Good U d G) {p : Name}
    (hp : p ∈ prefixes) (a : Bool) : Good U (getSafe d p a).2 (G ++ [(getSafe d p a).1]) := by
  rcases getSafe_cases d p a with ⟨w, hw, hfree, he⟩ | ⟨hfree, he⟩
  · rw [he]
    refine ⟨?_, ?_, ?_, ?_, ?_⟩
    · rw [List.nodup_append]
      refine ⟨h.nodup, by simp, ?_⟩
      intro x hx y hy
      simp at hy; subst hy
      intro e; subst e
      rcases h.shape _ hx with hk | ⟨p', hp', w', v', e1, e2, e3⟩
      · exact hfree hk
      · have hl : p.length = p'.length := by rw [prefix_len hp, prefix_len hp']
        obtain ⟨e0, e4⟩ := List.append_inj e1 hl
        subst e0
        have := num_inj e4; subst this
        rw [e2] at hw; simp at hw; omega
    · intro g hg
      simp at hg
      rcases hg with hg | rfl
      · exact h.fresh g hg
      · intro hu; exact hfree (h.users _ hu)
    · intro u hu; rw [keys_put]; exact List.mem_cons_of_mem _ (h.users u hu)
    · intro g hg
      simp at hg
      rcases hg with hg | rfl
      · rcases h.shape g hg with hk | ⟨p', hp', w', v', e1, e2, e3⟩
        · left; rw [keys_put]; exact List.mem_cons_of_mem _ hk
        · right
          refine ⟨p', hp', w', ?_⟩
          by_cases hpp : p = p'
          · subst hpp
            refine ⟨w + 1, e1, by simp [get?_put], ?_⟩
            rw [e2] at hw; simp at hw; omega
          · exact ⟨v', e1, by simp [get?_put, hpp, e2], e3⟩
      · right; exact ⟨p, hp, w, w + 1, rfl, by simp [get?_put], by omega⟩
    · intro g hg
      simp at hg
      rcases hg with hg | rfl
      · exact h.form g hg
      · exact ⟨p, hp, Or.inr ⟨w, rfl⟩⟩
  · rw [he]
    refine ⟨?_, ?_, ?_, ?_, ?_⟩
    · rw [List.nodup_append]
      refine ⟨h.nodup, by simp, ?_⟩
      intro x hx y hy
      simp at hy; subst hy
      intro e; subst e
      rcases h.shape _ hx with hk | ⟨p', hp', w', v', e1, e2, e3⟩
      · exact hfree hk
      · have h1 : x.length = 3 := prefix_len hp
        have h2 : p'.length = 3 := prefix_len hp'
        have h3 := congrArg List.length e1
        rw [List.length_append] at h3
        have : (num w').length ≠ 0 := fun e => num_ne_nil w' (List.eq_nil_of_length_eq_zero e)
        omega
    · intro g hg
      simp at hg
      rcases hg with hg | rfl
      · exact h.fresh g hg
      · intro hu; exact hfree (h.users _ hu)
    · intro u hu; rw [keys_put]; exact List.mem_cons_of_mem _ (h.users u hu)
    · intro g hg
      simp at hg
      rcases hg with hg | rfl
      · rcases h.shape g hg with hk | ⟨p', hp', w', v', e1, e2, e3⟩
        · left; rw [keys_put]; exact List.mem_cons_of_mem _ hk
        · right
          refine ⟨p', hp', w', v', e1, ?_, e3⟩
          have hpp : p ≠ p' := by
            intro e; subst e; exact hfree (get?_some_mem e2)
          simp [get?_put, hpp, e2]
      · left; rw [keys_put]; exact List.mem_cons_self
    · intro g hg
      simp at hg
      rcases hg with hg | rfl
      · exact h.form g hg
      · exact ⟨_, hp, Or.inl rfl⟩

/-! ### the two loops -/

theorem userNames_cons_blank {p : P} (ps : List P) (h : blank p.name = true) :
    userNames (p :: ps) = userNames ps := by
  simp [userNames, names, h]

theorem userNames_cons_named {p : P} (ps : List P) (h : blank p.name = false) :
    userNames (p :: ps) = p.name :: userNames ps := by
  simp [userNames, names, h]

theorem userNames_append (a b : List P) : userNames (a ++ b) = userNames a ++ userNames b := by
  simp [userNames, names]

theorem getSafe_fresh_name {d : Deduper} {k : Name} (h : k ∉ d.keys) :
    getSafe d k false = (k, d.put k 0) := by
  simp [getSafe, get?_none_of_not_mem h]

/-- first loop: distinct user names that are not yet keys are all kept and become keys -/
theorem keepNamed_spec : ∀ (ps : List P) (d : Deduper), (userNames ps).Nodup →
    (∀ n ∈ userNames ps, n ∉ d.keys) →
    (keepNamed getSafe d ps).1 = ps ∧
    ∀ k, k ∈ (keepNamed getSafe d ps).2.keys ↔ k ∈ d.keys ∨ k ∈ userNames ps := by
  intro ps
  induction ps with
  | nil => intro d _ _; simp [keepNamed, userNames, names]
  | cons p ps ih =>
    intro d hn hd
    by_cases hb : blank p.name = true
    · rw [userNames_cons_blank ps hb] at hn hd ⊢
      have := ih d hn hd
      simp only [keepNamed, hb, if_true]
      exact ⟨by rw [this.1], this.2⟩
    · have hb' : blank p.name = false := by simpa using hb
      rw [userNames_cons_named ps hb'] at hn hd ⊢
      have hk : p.name ∉ d.keys := hd _ List.mem_cons_self
      have hn' := List.nodup_cons.1 hn
      have := ih (d.put p.name 0) hn'.2 (by
        intro n hnm
        rw [keys_put]
        intro hc
        rcases List.mem_cons.1 hc with rfl | hc
        · exact hn'.1 hnm
        · exact hd n (List.mem_cons_of_mem _ hnm) hc)
      simp only [keepNamed, hb', getSafe_fresh_name hk, Bool.false_eq_true, ↓reduceIte]
      refine ⟨by simp [this.1], ?_⟩
      intro k
      rw [this.2 k, keys_put]
      simp only [List.mem_cons]
      constructor
      · rintro ((rfl | h) | h)
        · exact Or.inr (Or.inl rfl)
        · exact Or.inl h
        · exact Or.inr (Or.inr h)
      · rintro (h | rfl | h)
        · exact Or.inl (Or.inr h)
        · exact Or.inl (Or.inl rfl)
        · exact Or.inr h

theorem genName_choice (isOut : Bool) (len : Nat) (d : Deduper) (i : Nat) (p : P) :
    ∃ q ∈ prefixes, ∃ a, genName getSafe isOut len d i p = getSafe d q a := by
  unfold genName
  split
  · exact ⟨errP, by simp [prefixes], false, rfl⟩
  · split
    · exact ⟨ctxP, by simp [prefixes], false, rfl⟩
    · cases isOut
      · exact ⟨argP, by simp [prefixes], true, rfl⟩
      · exact ⟨retP, by simp [prefixes], true, rfl⟩

/-- positions: named parameters keep their name, blank ones get a non-blank one -/
def Kept : List P → List P → Prop
  | [], [] => True
  | p :: ps, q :: qs => (blank p.name = false → q = p) ∧ Kept ps qs
  | _, _ => False

/-- second loop: the generated names `G'` extend the invariant; the resulting names are the user
names plus `G'` -/
theorem fillBlank_spec (U : List Name) (isOut : Bool) (len : Nat) :
    ∀ (ps : List P) (d : Deduper) (i : Nat) (G : List Name), Good U d G →
    ∃ G', Good U (fillBlank getSafe isOut len d i ps).2 (G ++ G') ∧
      (names (fillBlank getSafe isOut len d i ps).1).Perm (userNames ps ++ G') ∧
      Kept ps (fillBlank getSafe isOut len d i ps).1 := by
  intro ps
  induction ps with
  | nil => intro d i G h; exact ⟨[], by simpa [fillBlank] using h, by simp [fillBlank, names, userNames], trivial⟩
  | cons p ps ih =>
    intro d i G h
    by_cases hb : blank p.name = true
    · obtain ⟨q, hq, a, hg⟩ := genName_choice isOut len d i p
      have hs := good_step h hq a
      obtain ⟨G', h1, h2, h3⟩ := ih (getSafe d q a).2 (i + 1) (G ++ [(getSafe d q a).1]) hs
      refine ⟨(getSafe d q a).1 :: G', ?_, ?_, ?_⟩
      · simp only [fillBlank, hb, if_true, hg]
        simpa using h1
      · simp only [fillBlank, hb, if_true, hg, userNames_cons_blank ps hb]
        simp only [names, List.map_cons] at h2 ⊢
        exact (List.Perm.cons _ h2).trans List.perm_middle.symm
      · simp only [fillBlank, hb, if_true, hg]
        exact ⟨by simp [hb], h3⟩
    · have hb' : blank p.name = false := by simpa using hb
      obtain ⟨G', h1, h2, h3⟩ := ih d (i + 1) G h
      refine ⟨G', ?_, ?_, ?_⟩
      · simpa only [fillBlank, hb', Bool.false_eq_true, ↓reduceIte] using h1
      · simp only [fillBlank, hb', userNames_cons_named ps hb', Bool.false_eq_true, ↓reduceIte]
        simp only [names, List.map_cons] at h2 ⊢
        exact List.Perm.cons _ h2
      · simp only [fillBlank, hb', Bool.false_eq_true, ↓reduceIte]
        exact ⟨fun _ => rfl, h3⟩

theorem kept_get : ∀ (ps qs : List P), Kept ps qs → qs.length = ps.length ∧
    ∀ (i : Nat) (p : P), ps[i]? = some p → blank p.name = false → qs[i]? = some p := by
  intro ps
  induction ps with
  | nil => intro qs h; cases qs <;> simp_all [Kept]
  | cons p ps ih =>
    intro qs h
    cases qs with
    | nil => simp [Kept] at h
    | cons q qs =>
      simp only [Kept] at h
      have := ih qs h.2
      refine ⟨by simp [this.1], ?_⟩
      intro i p' hi hb
      cases i with
      | zero => simp at hi; subst hi; simp [h.1 hb]
      | succ i => simp at hi ⊢; exact this.2 i p' hi hb

/-- everything the repaired `ensureParamNames` does, in one statement: the resulting names are the
user names plus a duplicate-free list `G` of fresh generated names of the form
`arg|ret|ctx|err` + optional decimal number, and named parameters are untouched -/
theorem ensureParamNames_spec (ins outs : List P) (hU : (userNames (ins ++ outs)).Nodup) :
    ∃ G : List Name,
      (names (ensureParamNames ins outs).1 ++ names (ensureParamNames ins outs).2).Perm
        (userNames (ins ++ outs) ++ G) ∧
      G.Nodup ∧ (∀ g ∈ G, g ∉ userNames (ins ++ outs)) ∧
      (∀ g ∈ G, ∃ p ∈ prefixes, g = p ∨ ∃ w, g = p ++ num w) ∧
      Kept ins (ensureParamNames ins outs).1 ∧ Kept outs (ensureParamNames ins outs).2 := by
  have hU' := hU
  rw [userNames_append, List.nodup_append] at hU'
  obtain ⟨hi, ho, hdis⟩ := hU'
  have ha := keepNamed_spec ins [] hi (by simp [Deduper.keys])
  have hb := keepNamed_spec outs (keepNamed getSafe [] ins).2 ho (by
    intro n hn hk
    rw [ha.2 n] at hk
    rcases hk with hk | hk
    · simp [Deduper.keys] at hk
    · exact hdis n hk n hn rfl)
  have hg : Good (userNames (ins ++ outs)) (keepNamed getSafe (keepNamed getSafe [] ins).2 outs).2 [] := by
    refine ⟨by simp, by simp, ?_, by simp, by simp⟩
    intro u hu
    rw [userNames_append, List.mem_append] at hu
    rw [hb.2 u, ha.2 u]
    rcases hu with hu | hu
    · exact Or.inl (Or.inr hu)
    · exact Or.inr hu
  obtain ⟨G1, h1, p1, k1⟩ := fillBlank_spec (userNames (ins ++ outs)) false ins.length
    (keepNamed getSafe [] ins).1 _ 0 [] hg
  obtain ⟨G2, h2, p2, k2⟩ := fillBlank_spec (userNames (ins ++ outs)) true outs.length
    (keepNamed getSafe (keepNamed getSafe [] ins).2 outs).1 _ 0 _ h1
  rw [ha.1] at p1 k1 h1 h2 p2 k2
  rw [hb.1] at p2 k2 h2
  refine ⟨G1 ++ G2, ?_, ?_, ?_, ?_, ?_, ?_⟩
  · simp only [ensureParamNames]
    rw [ha.1, hb.1]
    refine (List.Perm.append p1 p2).trans ?_
    rw [userNames_append]
    have : (G1 ++ userNames outs).Perm (userNames outs ++ G1) := List.perm_append_comm
    have h3 := List.Perm.append_left (userNames ins) (List.Perm.append_right G2 this)
    simpa [List.append_assoc] using h3
  · simpa using h2.nodup
  · intro g hg'; exact h2.fresh g (by simpa using hg')
  · intro g hg'; exact h2.form g (by simpa using hg')
  · simp only [ensureParamNames]; rw [ha.1]; exact k1
  · simp only [ensureParamNames]; rw [ha.1, hb.1]; exact k2

/-- **names_distinct.** For every signature whose user-chosen names are pairwise distinct (Go
requires that), all parameter and result names after `ensureParamNames` are pairwise distinct. -/
theorem names_distinct (ins outs : List P) (hU : (userNames (ins ++ outs)).Nodup) :
    (names (ensureParamNames ins outs).1 ++ names (ensureParamNames ins outs).2).Nodup := by
  obtain ⟨G, hp, hn, hf, _, _, _⟩ := ensureParamNames_spec ins outs hU
  rw [hp.nodup_iff, List.nodup_append]
  exact ⟨hU, hn, fun a ha b hb e => hf b hb (e ▸ ha)⟩

/-- **user_names_kept.** Every named parameter / result keeps its position and its name. -/
theorem user_names_kept (ins outs : List P) (hU : (userNames (ins ++ outs)).Nodup) :
    ((ensureParamNames ins outs).1.length = ins.length ∧
      ∀ (i : Nat) (p : P), ins[i]? = some p → blank p.name = false →
        (ensureParamNames ins outs).1[i]? = some p) ∧
    ((ensureParamNames ins outs).2.length = outs.length ∧
      ∀ (i : Nat) (p : P), outs[i]? = some p → blank p.name = false →
        (ensureParamNames ins outs).2[i]? = some p) := by
  obtain ⟨G, _, _, _, _, k1, k2⟩ := ensureParamNames_spec ins outs hU
  exact ⟨kept_get _ _ k1, kept_get _ _ k2⟩

theorem valid_generated {p : Name} (hp : p ∈ prefixes) (tail : Name)
    (ht : ∀ c ∈ tail, c.isDigit = true) : ValidIdent (p ++ tail) := by
  simp only [prefixes, argP, retP, ctxP, errP, List.mem_cons, List.not_mem_nil, or_false] at hp
  rcases hp with rfl | rfl | rfl | rfl
  all_goals
    refine ⟨⟨_, _, rfl, by decide⟩, ?_, by simp⟩
    intro c hc
    simp only [List.cons_append, List.nil_append, List.mem_cons] at hc
    rcases hc with rfl | rfl | rfl | hc
    · exact Or.inl (by decide)
    · exact Or.inl (by decide)
    · exact Or.inl (by decide)
    · exact Or.inr (ht c hc)

/-- **names_valid.** If the user-chosen names are valid identifiers, so is every resulting name (in
particular none is left unnamed or `_`). -/
theorem names_valid (ins outs : List P) (hU : (userNames (ins ++ outs)).Nodup)
    (hv : ∀ u ∈ userNames (ins ++ outs), ValidIdent u) :
    ∀ n ∈ names (ensureParamNames ins outs).1 ++ names (ensureParamNames ins outs).2,
      ValidIdent n := by
  obtain ⟨G, hp, _, _, hform, _, _⟩ := ensureParamNames_spec ins outs hU
  intro n hn
  rw [hp.mem_iff, List.mem_append] at hn
  rcases hn with hn | hn
  · exact hv n hn
  · obtain ⟨p, hp', rfl | ⟨w, rfl⟩⟩ := hform n hn
    · simpa using valid_generated hp' [] (by simp)
    · exact valid_generated hp' (num w) (fun c hc =>
        Nat.isDigit_of_mem_toDigits (by decide) (by decide) hc)

/-- the pinned commit's `ensureParamNames` violates distinctness: `M(arg0 int, _ string)` yields
`arg0, arg0`; a user parameter `ctx0` collides with the name generated for an unnamed context
next to a parameter called `ctx`; an input `arg0` collides with a result named `arg0`. -/
theorem legacy_names_violate :
    names (ensureParamNamesLegacy [⟨['a', 'r', 'g', '0'], false, false⟩, ⟨['_'], false, false⟩] []).1
      = [['a', 'r', 'g', '0'], ['a', 'r', 'g', '0']] ∧
    names (ensureParamNamesLegacy
      [⟨[], false, true⟩, ⟨['c', 't', 'x', '0'], false, false⟩, ⟨['c', 't', 'x'], false, false⟩] []).1
      = [['c', 't', 'x', '0'], ['c', 't', 'x', '0'], ['c', 't', 'x']] ∧
    (ensureParamNamesLegacy [⟨[], false, false⟩] [⟨['a', 'r', 'g', '0'], false, false⟩]
      |> fun r => names r.1 ++ names r.2) = [['a', 'r', 'g', '0'], ['a', 'r', 'g', '0']] := by
  decide

/-- non-vacuity: the repaired algorithm on the three witnesses, and on a signature using every
branch (context first, error last, `_`, names equal to the generator's own choices) -/
example :
    names (ensureParamNames [⟨['a', 'r', 'g', '0'], false, false⟩, ⟨['_'], false, false⟩] []).1
      = [['a', 'r', 'g', '0'], ['a', 'r', 'g', '1']] ∧
    names (ensureParamNames
      [⟨[], false, true⟩, ⟨['c', 't', 'x', '0'], false, false⟩, ⟨['c', 't', 'x'], false, false⟩] []).1
      = [['c', 't', 'x', '1'], ['c', 't', 'x', '0'], ['c', 't', 'x']] ∧
    (ensureParamNames [⟨[], false, false⟩] [⟨['a', 'r', 'g', '0'], false, false⟩]
      |> fun r => names r.1 ++ names r.2) = [['a', 'r', 'g', '1'], ['a', 'r', 'g', '0']] ∧
    (ensureParamNames [⟨[], false, true⟩, ⟨['e', 'r', 'r'], false, false⟩, ⟨['_'], false, false⟩]
        [⟨[], false, false⟩, ⟨['r', 'e', 't', '0'], false, false⟩, ⟨[], true, false⟩]
      |> fun r => names r.1 ++ names r.2)
      = [['c', 't', 'x'], ['e', 'r', 'r'], ['a', 'r', 'g', '0'], ['r', 'e', 't', '1'], ['r', 'e', 't', '0'], ['e', 'r', 'r', '0']] := by
  decide

/-! ## (b) method collection and embedded merge -/

abbrev enterU : Unit → Unit → Unit := fun _ _ => ()
abbrev visitU : Unit → Unit → Unit × Unit := fun _ _ => ((), ())

theorem ifaceNames_def (propagate : Bool) (o : Opts) (t : Ty Unit Unit) :
    ifaceNames propagate o t = (nti enterU visitU propagate o () t).2.methods.map (·.1) := rfl

theorem visitOwn_names (o : Opts) (own : List (Name × Unit)) :
    (visitOwn visitU o () own).2.map (·.1) = (own.map (·.1)).filter (keep o) := by
  induction own with
  | nil => rfl
  | cons m ms ih =>
    by_cases h : (o.priv || exported m.1) = true
    · simp only [visitOwn, h, if_true, List.map_cons, List.filter_cons, keep]
      simpa [keep] using ih
    · have h' : (o.priv || exported m.1) = false := by simpa using h
      simp only [visitOwn, h', List.map_cons, List.filter_cons, keep, Bool.false_eq_true, ↓reduceIte]
      simpa [keep] using ih

/-- **options, no IncludeEmbedded.** The interface has exactly the type's own methods that pass the
private filter, in declaration order — for every type, whatever it embeds. -/
theorem without_embedded (propagate : Bool) (o : Opts) (ho : o.embedded = false)
    (self : Unit) (own : List (Name × Unit)) (emb : List (Ty Unit Unit)) :
    ifaceNames propagate o (.mk self own emb) = (own.map (·.1)).filter (keep o) := by
  rw [ifaceNames_def, nti]
  simp only [ho, Bool.not_false, if_true]
  exact visitOwn_names o own

/-- **private_filter (own methods).** `IncludePrivate` adds exactly the unexported own methods:
the interface without it is the exported part of the interface with it. -/
theorem private_filter_own (propagate : Bool) (self : Unit) (own : List (Name × Unit))
    (emb : List (Ty Unit Unit)) :
    ifaceNames propagate ⟨false, false⟩ (.mk self own emb) =
      (ifaceNames propagate ⟨true, false⟩ (.mk self own emb)).filter exported := by
  rw [without_embedded _ _ rfl, without_embedded _ _ rfl]
  have h1 : keep ⟨false, false⟩ = exported := by funext n; simp [keep]
  have h2 : keep ⟨true, false⟩ = fun _ => true := by funext n; simp [keep]
  rw [h1, h2]; simp

theorem mergeStep_keep {o : Opts} (st : Merge Unit) (m : Name × Unit)
    (hs : ∀ x ∈ st.toAdd, keep o x.1 = true) (hm : keep o m.1 = true) :
    ∀ x ∈ (mergeStep st m).toAdd, keep o x.1 = true := by
  unfold mergeStep
  split
  · exact hs
  · split
    · intro x hx; exact hs x (List.mem_filter.1 hx).1
    · intro x hx
      rcases List.mem_append.1 hx with h | h
      · exact hs x h
      · simp at h; subst h; exact hm

theorem ambStep_keep {o : Opts} (st : Merge Unit) (n : Name)
    (hs : ∀ x ∈ st.toAdd, keep o x.1 = true) :
    ∀ x ∈ (ambStep st n).toAdd, keep o x.1 = true := by
  unfold ambStep
  split
  · exact hs
  · intro x hx; exact hs x (List.mem_filter.1 hx).1

theorem foldl_mergeStep_keep {o : Opts} : ∀ (ms : List (Name × Unit)) (st : Merge Unit),
    (∀ x ∈ st.toAdd, keep o x.1 = true) → (∀ m ∈ ms, keep o m.1 = true) →
    ∀ x ∈ (ms.foldl mergeStep st).toAdd, keep o x.1 = true := by
  intro ms
  induction ms with
  | nil => intro st hs _; exact hs
  | cons m ms ih =>
    intro st hs hm
    rw [List.foldl_cons]
    exact ih _ (mergeStep_keep st m hs (hm m List.mem_cons_self))
      (fun x hx => hm x (List.mem_cons_of_mem _ hx))

theorem foldl_ambStep_keep {o : Opts} : ∀ (ns : List Name) (st : Merge Unit),
    (∀ x ∈ st.toAdd, keep o x.1 = true) →
    ∀ x ∈ (ns.foldl ambStep st).toAdd, keep o x.1 = true := by
  intro ns
  induction ns with
  | nil => intro st hs; exact hs
  | cons n ns ih => intro st hs; rw [List.foldl_cons]; exact ih _ (ambStep_keep st n hs)

mutual
/-- **private_filter (all depths).** Whatever is embedded, however deep: every method of the
interface passes the private filter, so without `IncludePrivate` no unexported method — own or
promoted — is ever rendered. -/
theorem nti_keep (propagate : Bool) (o : Opts) : ∀ (t : Ty Unit Unit),
    ∀ m ∈ (nti enterU visitU propagate o () t).2.methods, keep o m.1 = true
  | .mk self own emb => by
    have hown : ∀ m ∈ (visitOwn visitU o () own).2, keep o m.1 = true := by
      intro m hm
      have h1 : m.1 ∈ (visitOwn visitU o () own).2.map (·.1) := List.mem_map_of_mem hm
      rw [visitOwn_names] at h1
      exact (List.mem_filter.1 h1).2
    rw [nti]
    by_cases ho : o.embedded = true
    · simp only [ho, Bool.not_true, Bool.false_eq_true, ↓reduceIte]
      intro m hm
      rcases List.mem_append.1 hm with h | h
      · exact hown m h
      · exact ntiEmb_keep propagate o emb _ (by simp) m h
    · have ho' : o.embedded = false := by simpa using ho
      simp only [ho', Bool.not_false, if_true]
      exact hown
theorem ntiEmb_keep (propagate : Bool) (o : Opts) : ∀ (ts : List (Ty Unit Unit)) (st : Merge Unit),
    (∀ x ∈ st.toAdd, keep o x.1 = true) →
    ∀ x ∈ (ntiEmb enterU visitU propagate o () ts st).2.toAdd, keep o x.1 = true
  | [], st => by intro hs; rw [ntiEmb]; exact hs
  | t :: ts, st => by
    intro hs
    rw [ntiEmb]
    apply ntiEmb_keep propagate o ts
    have h1 := foldl_mergeStep_keep (o := o) _ st hs (nti_keep propagate o t)
    cases propagate
    · simpa using h1
    · simpa using foldl_ambStep_keep _ _ h1
end

/-- every own method that passes the filter is in the interface (parent methods win), at any depth
of embedding and for both algorithms -/
theorem own_methods_present (propagate : Bool) (o : Opts) (self : Unit) (own : List (Name × Unit))
    (emb : List (Ty Unit Unit)) (n : Name) (hn : n ∈ own.map (·.1)) (hk : keep o n = true) :
    n ∈ ifaceNames propagate o (.mk self own emb) := by
  have h1 : n ∈ (visitOwn visitU o () own).2.map (·.1) := by
    rw [visitOwn_names]; exact List.mem_filter.2 ⟨hn, hk⟩
  rw [ifaceNames_def, nti]
  by_cases ho : o.embedded = true
  · simp only [ho, Bool.not_true, Bool.false_eq_true, ↓reduceIte, List.map_append, List.mem_append]
    exact Or.inl h1
  · have ho' : o.embedded = false := by simpa using ho
    simp only [ho', Bool.not_false, if_true]
    exact h1

/-! ### the merge against the property text

`WF t`: own method names are pairwise distinct at every type of the tree (Go guarantees it).
`specHas` is the property text read recursively ("the added methods are the promoted ones defined
neither by the type itself nor under more than one embedded field"); `GoPromotes` is Go's selector
rule.  All for embedding trees of ANY depth, and for any import-handler state threaded through. -/

/-- **embedded_methods_exact.** With IncludeEmbedded, the repaired merge renders a method name iff
it passes the private filter and the specification has it. -/
theorem embedded_methods_exact (o : Opts) (ho : o.embedded = true) (t : Ty Unit Unit) (hwf : WF t)
    (n : Name) : n ∈ ifaceNames true o t ↔ keep o n = true ∧ specHas t n = true := by
  rw [ifaceNames_def]
  have hok := nti_ok enterU visitU o ho t hwf ()
  constructor
  · intro h
    have hk := nti_keepG enterU visitU true o t () n h
    exact ⟨hk, (hok.2.1 n hk).1 h⟩
  · rintro ⟨hk, hs⟩
    exact (hok.2.1 n hk).2 hs

/-- the same for the model function the driver runs (`findInterface`, repaired algorithm), whatever
the import handler and the signatures are -/
theorem findInterface_methods_exact (o : Opts) (ho : o.embedded = true) (ih : IH)
    (t : Ty GoType Sig) (hwf : WF t) (n : Name) :
    n ∈ (findInterface false o ih t).2.methods.map (·.1) ↔ keep o n = true ∧ specHas t n = true := by
  unfold findInterface
  simp only [Bool.not_false]
  constructor
  · intro h
    have hk := nti_keepG _ _ true o t ih n h
    exact ⟨hk, ((nti_ok _ _ o ho t hwf ih).2.1 n hk).1 h⟩
  · rintro ⟨hk, hs⟩
    exact ((nti_ok _ _ o ho t hwf ih).2.1 n hk).2 hs

/-- the rendered method names are pairwise distinct (an interface cannot list a name twice) -/
theorem rendered_methods_nodup (o : Opts) (ho : o.embedded = true) (ih : IH) (t : Ty GoType Sig)
    (hwf : WF t) : ((findInterface false o ih t).2.methods.map (·.1)).Nodup := by
  unfold findInterface
  simp only [Bool.not_false]
  exact (nti_ok _ _ o ho t hwf ih).1

/-- **rendered_methods_promoted.** Every method the repaired merge renders is promoted by Go (a
legal selector on the type), so the original type has it — for both option settings. -/
theorem rendered_methods_promoted (o : Opts) (t : Ty Unit Unit) (hwf : WF t) (n : Name)
    (h : n ∈ ifaceNames true o t) : GoPromotes t n := by
  by_cases ho : o.embedded = true
  · exact specHas_promotes t n ((embedded_methods_exact o ho t hwf n).1 h).2
  · have ho' : o.embedded = false := by simpa using ho
    cases t with
    | mk self own emb =>
      rw [without_embedded true o ho'] at h
      have hm := (List.mem_filter.1 h).1
      refine ⟨0, ?_, fun d' hd => absurd hd (Nat.not_lt_zero _)⟩
      rw [countAt]
      simp only [contains_iff.2 hm, if_true]

/-- the specification side alone: whatever the specification puts into the interface is promoted by
Go, at any depth -/
theorem spec_methods_promoted (t : Ty Unit Unit) (n : Name) (h : specHas t n = true) :
    GoPromotes t n := specHas_promotes t n h

/-- the property text read literally, at the root only: own methods, plus the methods Go promotes
whose names are defined under at most one embedded field -/
def LitHas {ρ σ : Type} : Ty ρ σ → Name → Prop
  | .mk self own emb, n =>
    n ∈ own.map (·.1) ∨ (GoPromotes (.mk self own emb) n ∧ specCount emb n ≤ 1)

/-- at ANY depth the recursive reading is at least as strict as the literal one: whatever the
specification (hence the repaired code) renders, the literal text allows.  (The converse holds on
the quantifier's two-level trees but not deeper — see the example after `sampleT`: below three
levels a name can be promoted by Go's depth rule while being ambiguous inside an intermediate
type; the code, like its doc comment, drops it.  That converse is NOT proved here.) -/
theorem spec_implies_literal {ρ σ : Type} (t : Ty ρ σ) (n : Name) (h : specHas t n = true) :
    LitHas t n := by
  have hp := specHas_promotes t n h
  cases t with
  | mk self own emb =>
    rw [specHas] at h
    simp only [LitHas]
    by_cases hx : (own.map (·.1)).contains n = true
    · exact Or.inl (contains_iff.1 hx)
    · have hx' : (own.map (·.1)).contains n = false := by simpa using hx
      simp only [hx', Bool.false_or, Bool.and_eq_true, beq_iff_eq] at h
      exact Or.inr ⟨hp, by omega⟩

def leaf (ns : List Name) : Ty Unit Unit := .mk () (ns.map (fun n => (n, ()))) []
def node (ns : List Name) (emb : List (Ty Unit Unit)) : Ty Unit Unit := .mk () (ns.map (fun n => (n, ()))) emb

def nFoo : Name := ['F', 'o', 'o']
def nBar : Name := ['B', 'a', 'r']
def nOwn : Name := ['O', 'w', 'n']
def nPriv : Name := ['p', 'r', 'i', 'v']

/-- `type D struct{}; func (D) Foo()`, same for `E`, `F`; `type A struct{D; E}`; `type B struct{F}`;
`type C struct{A; B}; func (C) Own()` -/
def witnessC : Ty Unit Unit :=
  node [nOwn] [node [] [leaf [nFoo], leaf [nFoo]], node [] [leaf [nFoo]]]

/-- the pinned commit's merge renders `Foo` for `C`, although `C.Foo` is an ambiguous selector in
Go (three `Foo` at depth 2: `C` has no method `Foo`, so `*C` does not implement the rendered
interface) and `Foo` is defined under more than one embedded field; the repaired merge drops it -/
theorem legacy_merge_violates :
    nFoo ∈ ifaceNames false ⟨true, true⟩ witnessC ∧
    goPromotes witnessC nFoo = false ∧ specHas witnessC nFoo = false ∧
    nFoo ∉ ifaceNames true ⟨true, true⟩ witnessC := by
  decide

/-- a tree using every branch of the merge -/
def sampleT : Ty Unit Unit :=
  node [nOwn, nPriv] [
    node [nFoo, nOwn] [leaf [nBar], leaf [nBar, nPriv]],   -- Bar ambiguous below, Own shadowed
    node [['B', 'a', 'z']] [leaf [nFoo]],                   -- Foo under two fields, Baz under one
    leaf [['Q', 'u', 'x'], ['q']]]

/-- evaluated samples of `embedded_methods_exact` / `rendered_methods_promoted` (non-vacuity: both
trees satisfy `WF`) -/
example :
    (∀ t ∈ [witnessC, sampleT], ∀ o ∈ [(⟨true, true⟩ : Opts), ⟨false, true⟩],
      ∀ n ∈ allNames t, (decide (n ∈ ifaceNames true o t) = (keep o n && specHas t n)) ∧
        (n ∈ ifaceNames true o t → goPromotes t n = true)) ∧
    ifaceNames true ⟨true, true⟩ sampleT = [nOwn, nPriv, ['B', 'a', 'z'], ['Q', 'u', 'x'], ['q']] := by
  decide

/-- three levels deep the literal and the recursive reading part: `P{T}`, `T{A;B}`, `A.Foo`,
`B{C}`, `C.Foo` — Go promotes `P.Foo` (= `A.Foo`, depth 2) and `Foo` is under one embedded field of
`P`; but it is defined under two embedded fields of `T`, so `T`'s interface, and hence `P`'s, omits
it — in the specification and in both algorithms -/
example :
    let p := node [] [node [] [leaf [nFoo], node [] [leaf [nFoo]]]]
    goPromotes p nFoo = true ∧ specHas p nFoo = false ∧
      nFoo ∉ ifaceNames true ⟨true, true⟩ p ∧ nFoo ∉ ifaceNames false ⟨true, true⟩ p := by
  decide

/-- non-vacuity of the hypothesis `WF` -/
example : WF witnessC ∧ WF sampleT := by
  simp [witnessC, sampleT, node, leaf, WF, WFL, nFoo, nBar, nOwn, nPriv]

/-! ## (c) type references and imports

`sem t` is the type a `go/types` term stands for (package identity = import path, parameter names
irrelevant); `denote cur act e` is what a rendered reference `e` means inside package `cur` whose
import block is `act` (a qualifier used by two imports, or by none, means nothing).  The work is in
`Lemmas/GencommonRefs.lean` (`extract_ok`, by mutual structural induction over `GoType`); the
import step it rests on is `addImport_active` / `addImport_mono` there. -/

/-- **typeRef_denotes_same.** For EVERY type term and every handler state: if the active imports
after `ExtractTypeRef` have pairwise distinct aliases, the rendered reference denotes the identical
type. -/
theorem typeRef_denotes_same (ih : IH) (t : GoType)
    (hd : DistinctAliases (extract ensureParamNames ih t).1) :
    denote ih.cur (extract ensureParamNames ih t).1.active (extract ensureParamNames ih t).2
      = some (sem t) :=
  (extract_ok ensureParamNames lenOK_ensureParamNames t ih).2.2 _ (Le.refl _) hd

/-- … and it keeps denoting that type in every later state of the handler (more types extracted,
more imports activated — `GetActive` is cumulative), as long as the aliases stay distinct. -/
theorem typeRef_denotes_same_later (ih ihF : IH) (t : GoType)
    (hle : Le (extract ensureParamNames ih t).1 ihF) (hd : DistinctAliases ihF) :
    denote ih.cur ihF.active (extract ensureParamNames ih t).2 = some (sem t) :=
  (extract_ok ensureParamNames lenOK_ensureParamNames t ih).2.2 ihF hle hd

/-- **needed_imports_active.** Every package a type term mentions, other than the current one, is
among the active imports afterwards (and, by `typeRef_denotes_same`, under the alias printed). -/
theorem needed_imports_active (ih : IH) (t : GoType) (p : Name) (hp : p ∈ pathsOf t)
    (hne : p ≠ ih.cur) : ∃ i ∈ (extract ensureParamNames ih t).1.active, i.path = p := by
  obtain ⟨a, i, hi, h1, _, h3⟩ :=
    (extract_ok ensureParamNames lenOK_ensureParamNames t ih).2.1 p hp hne
  exact ⟨i, List.mem_filter.2 ⟨hi, h3⟩, h1⟩

/-- `ExtractTypeRef` never drops or re-aliases an active import and never changes the package -/
theorem extract_grows (ih : IH) (t : GoType) : Le ih (extract ensureParamNames ih t).1 :=
  (extract_ok ensureParamNames lenOK_ensureParamNames t ih).1

/-- the same three facts for a whole method (`MethodFromSignature`): parameter and result types,
position by position -/
theorem method_types_denote_same (ih ihF : IH) (s : Sig)
    (hle : Le (methodFromSignature ensureParamNames ih s).1 ihF) (hd : DistinctAliases ihF) :
    denoteL ih.cur ihF.active ((methodFromSignature ensureParamNames ih s).2.input.map (·.2))
      = some (semPs s.params) ∧
    denoteL ih.cur ihF.active ((methodFromSignature ensureParamNames ih s).2.output.map (·.2))
      = some (semPs s.results) :=
  (methodFromSignature_ok ensureParamNames lenOK_ensureParamNames
    (fun i o => (ensureParamNames_length i o).2) ih s).2.2 ihF hle hd

/-- `FindInterface` never drops or re-aliases an active import (so `GetActive()` is cumulative over
calls on one handler) -/
theorem findInterface_grows (o : Opts) (ih : IH) (t : Ty GoType Sig) :
    Le ih (findInterface false o ih t).1 := by
  unfold findInterface
  simp only [Bool.not_false, Bool.false_eq_true, if_false]
  exact (nti_fromSig ensureParamNames lenOK_ensureParamNames
    (fun i o => (ensureParamNames_length i o).2) true o ih t).1

/-- **every referenced type denotes the identical type, at the level of `FindInterface`.** For any
embedding tree, any signatures, any options and any handler state: if the active imports afterwards
have pairwise distinct aliases, then every method of the result stems from a signature `s` declared
in the tree under that method's name, and its rendered parameter and result types denote, position
by position, exactly the types of `s`. -/
theorem rendered_types_denote_same (o : Opts) (ih : IH) (t : Ty GoType Sig)
    (hd : DistinctAliases (findInterface false o ih t).1) :
    ∀ y ∈ (findInterface false o ih t).2.methods, ∃ s : Sig, (y.1, s) ∈ allMeths t ∧
      denoteL ih.cur (findInterface false o ih t).1.active (y.2.input.map (·.2))
        = some (semPs s.params) ∧
      denoteL ih.cur (findInterface false o ih t).1.active (y.2.output.map (·.2))
        = some (semPs s.results) := by
  have hle := findInterface_grows o ih t
  revert hd hle
  unfold findInterface
  simp only [Bool.not_false, Bool.false_eq_true, if_false]
  intro hd hle y hy
  obtain ⟨s, ih0, h1, h2, h3⟩ := (nti_fromSig ensureParamNames lenOK_ensureParamNames
    (fun i o => (ensureParamNames_length i o).2) true o ih t).2 y hy
  have hok := methodFromSignature_ok ensureParamNames lenOK_ensureParamNames
    (fun i o => (ensureParamNames_length i o).2) ih0 s
  have hcur : ih0.cur = ih.cur := by
    rw [← hok.1.1, ← h3.1, hle.1]
  have := hok.2.2 _ h3 hd
  rw [hcur, ← h2] at this
  exact ⟨s, h1, this⟩

/-! #### packages the file handed to `LoadPackages` does not import

`calcImports` builds the table from the import specs of ONE file.  A method promoted from an
embedded type of another package, or declared in another file of the target package, may mention
a package that file never imports (`context`, a third sibling).  `addNamed` then takes its `else`
branch: it creates an entry named after the package's DECLARED name, stores it in the table and
marks it in use.  `needed_imports_active` above is stated for every handler state, so it covers
that branch; the next theorems spell the branch out. -/

/-- **the `else` branch of `addNamed`.** A reference to package `q` (declared name `nm`) from a
handler whose table has no entry for `q`: the qualifier printed is `nm`, and the table afterwards is
the old one plus ONE entry for `q`, aliased `nm`, in use - stored, so that `GetActive` reports it. -/
theorem addImport_unknown_package (ih : IH) (q nm : Name) (hne : q ≠ ih.cur)
    (hun : ih.find? q = none) (hnm : nm ≠ []) :
    (addImport ih q nm).2 = some nm ∧
    (addImport ih q nm).1.imports = ih.imports ++ [⟨nm, q, hasSuffix q nm, true⟩] ∧
    (⟨nm, q, hasSuffix q nm, true⟩ : ImportDesc) ∈ (addImport ih q nm).1.active := by
  have hd : decide (nm = []) = false := by simp [hnm]
  unfold addImport
  simp only [hne, if_false, hun, hd]
  refine ⟨?_, ?_, ?_⟩
  · split <;> first | rfl | (rename_i h; simp at h)
  · split <;> first | rfl | (rename_i h; simp at h)
  · split
    · rename_i h; simp at h
    · exact List.mem_filter.2 ⟨List.mem_append_right _ List.mem_cons_self, rfl⟩

/-- **needed_imports_active, for a package ABSENT from the file's import table.** For every type
term and every handler: a mentioned package for which the table has no entry before is active
afterwards through an entry that was not there before. -/
theorem needed_imports_active_unimported (ih : IH) (t : GoType) (p : Name) (hp : p ∈ pathsOf t)
    (hne : p ≠ ih.cur) (hun : ih.find? p = none) :
    ∃ i ∈ (extract ensureParamNames ih t).1.active, i.path = p ∧ i ∉ ih.imports := by
  obtain ⟨i, hi, h1⟩ := needed_imports_active ih t p hp hne
  refine ⟨i, hi, h1, ?_⟩
  intro hmem
  have := List.find?_eq_none.1 hun i hmem
  simp [h1] at this

/-- **every import it needs is among the active imports, at the level of `FindInterface`** - for
any embedding tree, any signatures, any options and ANY handler state, in particular one built from
a file that imports none of the packages involved: every method of the result stems from a
signature `s` declared in the tree under that method's name, and every package `s` mentions (other
than the target package) is among the active imports of the handler afterwards. -/
theorem findInterface_needed_imports_active (o : Opts) (ih : IH) (t : Ty GoType Sig) :
    ∀ y ∈ (findInterface false o ih t).2.methods, ∃ s : Sig, (y.1, s) ∈ allMeths t ∧
      ∀ p ∈ pathsOfPs s.params ++ pathsOfPs s.results, p ≠ ih.cur →
        ∃ i ∈ (findInterface false o ih t).1.active, i.path = p := by
  have hle := findInterface_grows o ih t
  revert hle
  unfold findInterface
  simp only [Bool.not_false, Bool.false_eq_true, if_false]
  intro hle y hy
  obtain ⟨s, ih0, h1, _, h3⟩ := (nti_fromSig ensureParamNames lenOK_ensureParamNames
    (fun i o => (ensureParamNames_length i o).2) true o ih t).2 y hy
  have hok := methodFromSignature_ok ensureParamNames lenOK_ensureParamNames
    (fun i o => (ensureParamNames_length i o).2) ih0 s
  have hcur : ih0.cur = ih.cur := by
    rw [← hok.1.1, ← h3.1, hle.1]
  refine ⟨s, h1, ?_⟩
  intro p hp hne
  obtain ⟨a, ha⟩ := hok.2.1 p hp (by rw [hcur]; exact hne)
  obtain ⟨i, hi, e1, _, e3⟩ := h3.2 p a ha
  exact ⟨i, List.mem_filter.2 ⟨hi, e3⟩, e1⟩

/-- the pinned commit's naming does not affect type references: the same holds with it -/
theorem typeRef_denotes_same_legacy_naming (ih : IH) (t : GoType)
    (hd : DistinctAliases (extract ensureParamNamesLegacy ih t).1) :
    denote ih.cur (extract ensureParamNamesLegacy ih t).1.active
      (extract ensureParamNamesLegacy ih t).2 = some (sem t) :=
  (extract_ok ensureParamNamesLegacy lenOK_ensureParamNamesLegacy t ih).2.2 _ (Le.refl _) hd

def sib : Name := ['s', 'i', 'b']
def pSib : Name := ['m', '/', 's', 'i', 'b']
def pRen : Name := ['m', '/', 'r', 'e', 'n']
def pDeep : Name := ['m', '/', 'x', '/', 'd', 'e', 'e', 'p']
def pCur : Name := ['m', '/', 't', 'g', 't']
def tT : Name := ['T']

/-- a handler as `calcImports` builds it: `sib` imported plainly, `ren` under the name `rn` -/
def sampleIH : IH :=
  calcImports pCur [(pSib, sib), (pRen, ['r', 'e', 'n'])] [(pSib, none), (pRen, some ['r', 'n'])]

/-- `map[sib.T][]*rn.Box[T, deep.T]`, `func(arg0 int, _ [3]deep.T, xs ...sib.T) (T, error)` -/
def sampleTypes : List GoType :=
  [.map (.named pSib sib tT []) (.slice (.ptr (.named pRen ['r', 'e', 'n'] ['B', 'o', 'x']
      [.named pCur ['t', 'g', 't'] tT [], .named pDeep ['d', 'e', 'e', 'p'] tT []]))),
   .func [(['a', 'r', 'g', '0'], .basic ['i', 'n', 't']), (['_'], .array 3 (.named pDeep ['d', 'e', 'e', 'p'] tT [])),
          (['x', 's'], .slice (.named pSib sib tT []))] true
     [([], .named pCur ['t', 'g', 't'] tT []), ([], .basic ['e', 'r', 'r', 'o', 'r'])]]

/-- evaluated sample of `typeRef_denotes_same` / `needed_imports_active`, and non-vacuity of
`DistinctAliases` (plain, renamed and not-yet-imported packages, every constructor) -/
example :
    DistinctAliases (extractL ensureParamNames sampleIH sampleTypes).1 ∧
    (denoteL pCur (extractL ensureParamNames sampleIH sampleTypes).1.active
      (extractL ensureParamNames sampleIH sampleTypes).2).map (SType.sameL (semL sampleTypes)) = some true ∧
    (extractL ensureParamNames sampleIH sampleTypes).1.active.map (fun i => (i.alias, i.path)) =
      [(sib, pSib), (['r', 'n'], pRen), (['d', 'e', 'e', 'p'], pDeep)] := by
  refine ⟨?_, ?_⟩
  · unfold DistinctAliases; decide
  · decide

/-- non-vacuity of `rendered_types_denote_same`: a struct with one own method
`M(_ sib.T, xs ...rn.Box[T]) error` embedding a type with `Get() deep.T`; the hypothesis holds -/
example :
    DistinctAliases (findInterface false ⟨true, true⟩ sampleIH
      (.mk (.named pCur ['t', 'g', 't'] ['S'] [])
        [(['M'], ⟨[(['_'], .named pSib sib tT []),
                   (['x', 's'], .slice (.named pRen ['r', 'e', 'n'] ['B', 'o', 'x'] [.named pCur ['t', 'g', 't'] tT []]))],
                  true, [([], .basic ['e', 'r', 'r', 'o', 'r'])]⟩)]
        [.mk (.named pSib sib ['E'] []) [(['G', 'e', 't'], ⟨[], false, [([], .named pDeep ['d', 'e', 'e', 'p'] tT [])]⟩)] []])).1 := by
  unfold DistinctAliases; decide

/-- a handler built from a file that imports NOTHING (`calcImports` of an empty import block): the
struct embeds `sib.E`, whose method `Lookup(ctx context.Context, k deep.T) (sib.T, error)` mentions
three packages the file never imports; afterwards all of them - and `sib` itself, for the embedded
field's own reference - are active under their declared names, and the aliases are distinct -/
example :
    let ih0 := calcImports pCur [(pSib, sib)] []
    let r := findInterface false ⟨false, true⟩ ih0
      (.mk (.named pCur ['t', 'g', 't'] ['S'] []) []
        [.mk (.named pSib sib ['E'] [])
          [(['L', 'o', 'o', 'k', 'u', 'p'],
            ⟨[(['c', 't', 'x'], .named "context".toList "context".toList "Context".toList []),
              (['k'], .named pDeep ['d', 'e', 'e', 'p'] tT [])], false,
             [([], .named pSib sib tT []), ([], .basic ['e', 'r', 'r', 'o', 'r'])]⟩)] []])
    ih0.imports = [] ∧
    r.1.active.map (fun i => (String.ofList i.alias, String.ofList i.importString)) =
      [("sib", "\"m/sib\""), ("context", "\"context\""), ("deep", "\"m/x/deep\"")] ∧
    DistinctAliases r.1 := by
  refine ⟨by decide, by decide, ?_⟩
  unfold DistinctAliases; decide

/-- what `addNamed` does NOT do for a package the file does not import: look whether the declared
name is already bound.  The file has `import deep "m/ren"`; a promoted method mentions `m/x/deep`
(`package deep`).  Both active entries are called `deep`: the hypothesis `DistinctAliases` of
`typeRef_denotes_same` fails and the qualifier resolves to nothing (the printed import block binds
`deep` twice).  Such programs are outside C19's quantifier (the harness keeps them in the
out-of-domain stream, class `unimported-clash`). -/
theorem unimported_name_already_bound_unresolved :
    let ih0 := calcImports pCur [(pRen, ['r', 'e', 'n'])] [(pRen, some ['d', 'e', 'e', 'p'])]
    let r := extractL ensureParamNames ih0
      [.named pRen ['r', 'e', 'n'] tT [], .named pDeep ['d', 'e', 'e', 'p'] tT []]
    r.1.active.map (fun i => (i.alias, i.path)) =
      [(['d', 'e', 'e', 'p'], pRen), (['d', 'e', 'e', 'p'], pDeep)] ∧
    ¬ DistinctAliases r.1 ∧ resolveAlias r.1.active ['d', 'e', 'e', 'p'] = none := by
  refine ⟨by decide, ?_, by decide⟩
  unfold DistinctAliases; decide

/-! ### the printed import block binds the qualifiers the references use

`denote` reads a qualifier against the `Alias` fields of the active entries.  What the rendered file
contains is `ImportString()` of each entry: an import declaration with or without an explicit
name, and a declaration without one binds the name in the imported package's PACKAGE CLAUSE
(`decl path`), not the last element of its path.  `Binds decl ih` (`Lemmas/GencommonBind.lean`) says
that for every entry the printed declaration binds exactly `Alias`. -/

/-- `ImportString()` is the text of the declaration `importSpec`: the explicit name is printed
exactly when `aliasIsPackageName` is false -/
theorem importString_prints_spec (i : ImportDesc) : i.importString = printSpec i.importSpec := by
  unfold ImportDesc.importString ImportDesc.importSpec printSpec
  split <;> rfl

/-- **an explicit import name is always echoed.** Whatever name the target file gives an import -
equal to the last path element (`v2 "m/pkg/v2"`), to the package's declared name, or to neither -
`calcImports` records it as the alias and `ImportString()` prints it in front of the path. -/
theorem explicit_name_printed (cur : Name) (pin : List (Name × Name))
    (specs : List (Name × Option Name)) (path a : Name) (h : (path, some a) ∈ specs) :
    ∃ i ∈ (calcImports cur pin specs).imports, i.alias = a ∧ i.path = path ∧
      i.importString = a ++ " \"".toList ++ path ++ "\"".toList := by
  refine ⟨⟨a, path, false, false⟩, ?_, rfl, rfl, ?_⟩
  · simp only [calcImports]
    exact List.mem_map.2 ⟨(path, some a), h, rfl⟩
  · simp [ImportDesc.importString]

/-- **calcImports_binds_alias.** For EVERY import block of a type-checked file (`PInfo.Imports`
resolves every import to its declared name; explicit names arbitrary - in particular equal to the
directory name of a package whose package clause says something else): the declaration printed
for each entry binds the entry's alias. -/
theorem calcImports_binds_alias (decl : Name → Name) (cur : Name) (pin : List (Name × Name))
    (specs : List (Name × Option Name)) (hP : ∀ e ∈ pin, e.2 = decl e.1)
    (hAll : ∀ s ∈ specs, s.2 = none → ∃ e ∈ pin, e.1 = s.1) :
    Binds decl (calcImports cur pin specs) := by
  refine ⟨hP, ?_⟩
  intro i hi
  simp only [calcImports] at hi
  obtain ⟨⟨path, al⟩, hs, rfl⟩ := List.mem_map.1 hi
  cases al with
  | some a => simp [bound_eq]
  | none =>
    simp only
    cases hf : pin.find? (fun e => e.1 = path) with
    | some e =>
      have hmem := List.mem_of_find?_eq_some hf
      have hq : e.1 = path := by simpa using List.find?_some hf
      simp only [bound_eq, if_true]
      rw [hP e hmem, hq]
    | none =>
      obtain ⟨e, he, hp⟩ := hAll (path, none) hs rfl
      have := List.find?_eq_none.1 hf e he
      simp at this hp
      exact absurd hp this

/-- `ExtractTypeRef` keeps that: an entry `addNamed` creates is named after the package's declared
name (the hypothesis: the term carries the names `go/types` reports) -/
theorem typeRef_binds_alias (decl : Name → Name) (ih : IH) (t : GoType) (hb : Binds decl ih)
    (hn : NamedBy decl (pkgsOf t)) : Binds decl (extract ensureParamNames ih t).1 :=
  extract_binds decl ensureParamNames t ih hb hn

/-- **findInterface_binds_alias.** For any embedding tree, signatures and options: after
`FindInterface` every entry's printed declaration still binds its alias. -/
theorem findInterface_binds_alias (decl : Name → Name) (o : Opts) (ih : IH) (t : Ty GoType Sig)
    (hb : Binds decl ih) (ht : TreeNamedBy decl t) : Binds decl (findInterface false o ih t).1 := by
  unfold findInterface
  simp only [Bool.not_false, Bool.false_eq_true, if_false]
  exact nti_binds decl ensureParamNames true o ih t hb ht

/-- **every import it needs is among the active imports UNDER THE ALIAS USED, in the file as
printed.** Resolving a qualifier against the printed import block (`ImportString()` of
`GetActive()`, names bound as the Go spec says) gives what `denote` assumed - so
`rendered_types_denote_same` speaks about the rendered file. -/
theorem printed_imports_bind_aliases (decl : Name → Name) (o : Opts) (ih : IH) (t : Ty GoType Sig)
    (hb : Binds decl ih) (ht : TreeNamedBy decl t) (a : Name) :
    resolveBound decl (findInterface false o ih t).1.active a
      = resolveAlias (findInterface false o ih t).1.active a :=
  resolveBound_eq_resolveAlias decl _
    (fun i hi => (findInterface_binds_alias decl o ih t hb ht).imports i (List.mem_filter.1 hi).1) a

def odd : Name := ['o', 'd', 'd']
def v2 : Name := ['v', '2']
def pOdd : Name := ['m', '/', 'o', 'd', 'd', '/', 'v', '2']

/-- declared names: directory `m/odd/v2` holds `package odd`; the others are named after their
directory -/
def sampleDecl (p : Name) : Name := if p = pOdd then odd else pathBase p

/-- the classic `v2 "m/odd/v2"` next to a plain import of `m/sib`, and the same package imported
under its declared name and under a third name (hypotheses of `calcImports_binds_alias` hold;
what is printed; what it binds) -/
example :
    ((calcImports pCur [(pSib, sib), (pOdd, odd)] [(pSib, none), (pOdd, some v2)]).imports.map
        (fun i => (String.ofList i.importString, i.bound sampleDecl)) =
      [("\"m/sib\"", sib), ("v2 \"m/odd/v2\"", v2)]) ∧
    ((calcImports pCur [(pOdd, odd)] [(pOdd, some odd)]).imports.map
        (fun i => (String.ofList i.importString, i.bound sampleDecl)) = [("odd \"m/odd/v2\"", odd)]) ∧
    ((calcImports pCur [(pOdd, odd)] [(pOdd, some ['o', 'x'])]).imports.map
        (fun i => (String.ofList i.importString, i.bound sampleDecl)) = [("ox \"m/odd/v2\"", ['o', 'x'])]) ∧
    ((calcImports pCur [(pOdd, odd)] [(pOdd, none)]).imports.map
        (fun i => (String.ofList i.importString, i.bound sampleDecl)) = [("\"m/odd/v2\"", odd)]) := by
  decide

/-- `Binds` is not a tautology: comparing the explicit name with the DIRECTORY name (an entry that
keeps alias `v2` but is flagged `aliasIsPackageName` because `v2` is the last path element) prints
`"m/odd/v2"`, which binds `odd`; the qualifier `v2` of the rendered references then resolves to
nothing (`undefined: v2`), and next to a plainly imported package that is really called `odd` the
name `odd` is bound twice. -/
theorem dirname_comparison_violates :
    (⟨v2, pOdd, true, true⟩ : ImportDesc).bound sampleDecl ≠ v2 ∧
    resolveBound sampleDecl [⟨v2, pOdd, true, true⟩] v2 = none ∧
    resolveAlias [⟨v2, pOdd, true, true⟩] v2 = some pOdd ∧
    resolveBound sampleDecl [⟨v2, pOdd, true, true⟩, ⟨odd, ['m', '/', 'x', '/', 'o', 'd', 'd'], true, true⟩] odd
      = none := by
  decide

end Gencommon

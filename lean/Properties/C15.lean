import Lemmas.GErrClone
import Generated.GerrorBase
/-!
# C15 — gerror: factories immutable; message/tag/source/stack compose lawfully

Model: `Model/GErrClone.lean` (mirror of `CloneBase`, of the 19 factory methods' wiring and of the
stack/`Metric` string functions).  Specification: `specMessage`, `specDTag`, `specSource`,
`specHasStack` there (they follow the sentences of the property).  All theorems are for every
factory, every chain of any length and all arguments.
-/
namespace GErrClone

/-! ### "trimmed", "non-blank": `strings.TrimSpace` -/

/-- an extension is dropped exactly when it is blank (only white space, or empty) -/
theorem trimSpace_eq_nil_iff (s : Str) : trimSpace s = [] ↔ s.all isSpace = true := by
  unfold trimSpace; rw [trimRight_eq_nil_iff, dropWhile_all_iff]

/-- `TrimSpace s` is `s` without a white-space prefix and a white-space suffix, and neither starts
nor ends with white space: this determines it uniquely. -/
theorem trimSpace_spec (s : Str) :
    ∃ l r, s = l ++ trimSpace s ++ r ∧ l.all isSpace = true ∧ r.all isSpace = true ∧
      (∀ c, (trimSpace s).head? = some c → isSpace c = false) ∧
      (∀ c, (trimSpace s).getLast? = some c → isSpace c = false) := by
  obtain ⟨r, hr, hsp, hl⟩ := trimRight_spec (s.dropWhile isSpace)
  refine ⟨s.takeWhile isSpace, r, ?_, ?_, hsp, ?_, hl⟩
  · unfold trimSpace
    rw [List.append_assoc, ← hr, List.takeWhile_append_dropWhile]
  · simp
  · intro c hc
    unfold trimSpace at hc
    have hne : trimRight (s.dropWhile isSpace) ≠ [] := by intro h; simp [h] at hc
    have h1 : (s.dropWhile isSpace).head? = some c := by
      rw [hr, List.head?_append, hc]; rfl
    have h2 := List.head?_dropWhile_not isSpace s
    rw [h1] at h2
    exact h2


/-! ## The chain laws -/

/-- the name never changes -/
theorem name_law (e : E) (cs : List Call) : (run e cs).name = e.name := by
  induction cs generalizing e with
  | nil => rfl
  | cons c cs ih => rw [run_cons, ih, step_name]

/-- **Message law.** After any chain, the message is the base message followed by each non-blank
extension, trimmed, joined by single spaces. -/
theorem message_law (e : E) (cs : List Call) :
    (run e cs).msg = specMessage e.msg (cs.map Call.msgArg) := by
  induction cs generalizing e with
  | nil => simp [run_nil, specMessage, joinNonEmpty_single]
  | cons c cs ih =>
    rw [run_cons, ih, step_msg]
    simp only [specMessage, List.map_cons]
    rw [joinNonEmpty_combine]

/-- **Detail-tag law.** Detail tags are joined by `-` (empty ones contribute nothing). -/
theorem dtag_law (e : E) (cs : List Call) :
    (run e cs).dtag = specDTag e.dtag (cs.map Call.dtagArg) := by
  induction cs generalizing e with
  | nil => simp [run_nil, specDTag, joinNonEmpty_single]
  | cons c cs ih =>
    rw [run_cons, ih, step_dtag]
    simp only [specDTag, List.map_cons]
    rw [joinNonEmpty_combine]

/-- **Stack law.** A stack is present after a chain exactly when the start had one or a
stack-taking method (`Stack`, `…S`) was used somewhere in the chain. -/
theorem stack_law (e : E) (cs : List Call) :
    (run e cs).hasStack = (e.hasStack || specHasStack cs) := by
  induction cs generalizing e with
  | nil => simp [run_nil, specHasStack]
  | cons c cs ih =>
    rw [run_cons, ih, step_hasStack]
    simp [specHasStack, Bool.or_assoc]

/-- from a factory (which has no stack): present iff a stack-taking method was used -/
theorem stack_iff_stack_method (f : E) (hf : f.stack = []) (cs : List Call) :
    (run f cs).stack ≠ [] ↔ ∃ c ∈ cs, c.m.takesStack = true := by
  have h := stack_law f cs
  simp only [E.hasStack, hf, specHasStack, List.isEmpty_nil, Bool.not_true, Bool.false_or] at h
  rw [← List.isEmpty_eq_false_iff, ← Bool.not_eq_true', h, List.any_eq_true]

/-- once captured, the stack is carried along unchanged -/
theorem stack_persists (e : E) (he : e.stack ≠ []) (cs : List Call) : (run e cs).stack = e.stack := by
  induction cs generalizing e with
  | nil => rfl
  | cons c cs ih =>
    have h1 : (step e c).stack = e.stack := by rw [step_stack]; simp [he]
    rw [run_cons, ih _ (by rw [h1]; exact he), h1]


/-! ### source -/


/-- The caller is "outside": its frame name does not start with what `getCurrentPackage` computes.
(That string is `…/gerror.Stack`, so this only excludes functions of package gerror whose name
starts with `Stack`.) -/
def CallerOutside (c : Call) : Prop := currentPackage.isPrefixOf c.frames.top = false

theorem nearestExternal_makeStack (st : StackType) (fr : Frames) (hst : st ≠ .noStack)
    (ho : currentPackage.isPrefixOf fr.top = false) :
    nearestExternal (makeStack st fr) = fr.top := by
  unfold nearestExternal makeStack Frames.toList
  cases st <;> simp [StackType.depth, List.find?, ho] at hst ⊢

/-- no stack without a source: true of every factory (no stack) and kept by every derivation -/
def Inv (e : E) : Prop := e.stack ≠ [] → e.src ≠ []

theorem step_src (e : E) (c : Call) (hi : Inv e) (ho : CallerOutside c) :
    (step e c).src =
      if e.src ≠ [] then e.src
      else if c.srcArg ≠ [] then c.srcArg
      else if c.m = .base then []
      else metric c.frames.top := by
  simp only [step, execRow, cloneBase_src, Call.srcArg]
  by_cases h1 : e.src = []
  · have h2 : e.stack = [] := by
      apply Classical.byContradiction; intro h; exact hi h h1
    by_cases h3 : evalArg (wiring c.m).src c = []
    · by_cases h4 : c.m = .base
      · simp [h1, h2, h3, h4, wiring_noStack_iff]
      · have h5 : (wiring c.m).stack ≠ .noStack := fun h => h4 ((wiring_noStack_iff _).mp h)
        simp [h1, h2, h3, h4, h5, nearestExternal_makeStack _ _ h5 ho]
    · simp [h1, h3]
  · simp [h1]

theorem step_inv (e : E) (c : Call) (hi : Inv e) (ho : CallerOutside c) : Inv (step e c) := by
  intro hs
  rw [step_src e c hi ho]
  by_cases h1 : e.src = []
  · have h2 : e.stack = [] := by
      apply Classical.byContradiction; intro h; exact hi h h1
    by_cases h3 : c.srcArg = []
    · by_cases h4 : c.m = .base
      · rw [step_stack] at hs
        simp [h2, h4, Method.takesStack] at hs
      · simp [h1, h3, h4, metric_ne_nil]
    · simp [h1, h3]
  · simp [h1]

theorem specSource_of_ne_nil (b : Str) (hb : b ≠ []) (cs : List Call) : specSource b cs = b := by
  cases cs <;> simp [specSource, hb]

/-- **Source law.** From any error that satisfies `Inv` (in particular every factory), along any
chain whose callers are outside gerror: the first non-empty source — preset in the factory, given
as an argument, or derived from the caller by the first method other than `Base` — wins and is
never overwritten. -/
theorem source_law (e : E) (hi : Inv e) (cs : List Call) (ho : ∀ c ∈ cs, CallerOutside c) :
    (run e cs).src = specSource e.src cs := by
  induction cs generalizing e with
  | nil => rfl
  | cons c cs ih =>
    have hoc := ho c (by simp)
    rw [run_cons, ih _ (step_inv e c hi hoc) (fun d hd => ho d (by simp [hd])), step_src e c hi hoc]
    by_cases h1 : e.src = []
    · by_cases h3 : c.srcArg = []
      · by_cases h4 : c.m = .base
        · simp [specSource, h1, h3, h4]
        · simp [specSource, h1, h3, h4, specSource_of_ne_nil _ (metric_ne_nil _)]
      · simp [specSource, h1, h3, specSource_of_ne_nil _ h3]
    · simp [specSource, h1, specSource_of_ne_nil _ h1]

/-- a factory (no stack) satisfies the invariant -/
theorem inv_of_factory (f : E) (hf : f.stack = []) : Inv f := fun h => absurd hf h

/-- **A non-empty source is never overwritten** — by any chain, wherever the callers are. -/
theorem source_never_overwritten (e : E) (he : e.src ≠ []) (cs : List Call) : (run e cs).src = e.src := by
  induction cs generalizing e with
  | nil => rfl
  | cons c cs ih =>
    have h1 : (step e c).src = e.src := by simp [step, execRow, cloneBase_src, he]
    rw [run_cons, ih _ (by rw [h1]; exact he), h1]

/-- **A source is derived from the caller whenever none was given, except by `Base`.** -/
theorem source_derived_unless_base (f : E) (hf : f.stack = []) (hs : f.src = []) (c : Call)
    (ho : CallerOutside c) (hg : c.srcArg = []) :
    (step f c).src = (if c.m = .base then [] else metric c.frames.top) ∧
    (c.m ≠ .base → (step f c).src ≠ []) := by
  rw [step_src f c (inv_of_factory f hf) ho]
  by_cases h4 : c.m = .base <;> simp [hs, hg, h4, metric_ne_nil]

/-- **The first non-empty source wins.** -/
theorem source_first_wins (f : E) (hf : f.stack = []) (hs : f.src = []) (c : Call) (cs : List Call)
    (ho : ∀ d ∈ c :: cs, CallerOutside d) (hg : c.srcArg ≠ []) :
    (run f (c :: cs)).src = c.srcArg := by
  rw [source_law f (inv_of_factory f hf) _ ho]
  simp [specSource, hs, hg]


/-! ## Tie A: the wiring table is what `gerror.go` says today

`Generated.GerrorBase` is rewritten from the checked tree before every build; these are re-checked by
the kernel each time. -/

/-- **Method wiring.** Every factory method of `*GError` hands to `CloneBase` exactly the stack
type and the parameters its name promises (`wiring`), in the right positions, and only `Convert*`
short-circuit on gerror values. -/
theorem method_wiring : ∀ m ∈ Method.all, rowOf Generated.GerrorBase.rows m = some (wiring m) := by
  decide

/-- the `Factory` interface has exactly the 19 modelled methods, so `method_wiring` covers it -/
theorem factory_methods_covered :
    Generated.GerrorBase.factoryMethods.map String.toList = Method.all.map (fun m => m.goName.toList) ∧
    Generated.GerrorBase.rows.length = Method.all.length := by
  decide

/-- the `StackType` constants and `defaultSkip` are the ones the model uses -/
theorem stack_constants :
    Generated.GerrorBase.stackDepths =
      [(.noStack, StackType.noStack.depth), (.sourceStack, StackType.sourceStack.depth),
       (.shortStack, StackType.shortStack.depth), (.defaultStack, StackType.defaultStack.depth)] ∧
    Generated.GerrorBase.defaultSkip = 4 := by
  decide

/-! ## Immutability: derivations only allocate -/

theorem derive_prefix (h : Heap) (d : Deriv) : ∃ l, derive h d = h ++ l := by
  unfold derive
  split
  · exact ⟨_, rfl⟩
  · exact ⟨[], by simp⟩

theorem runHeap_prefix (h : Heap) (ds : List Deriv) : ∃ l, runHeap h ds = h ++ l := by
  induction ds generalizing h with
  | nil => exact ⟨[], by simp [runHeap]⟩
  | cons d ds ih =>
    obtain ⟨l1, h1⟩ := derive_prefix h d
    obtain ⟨l2, h2⟩ := ih (derive h d)
    refine ⟨l1 ++ l2, ?_⟩
    show runHeap (derive h d) ds = _
    rw [h2, h1, List.append_assoc]

/-- **Factories are immutable.** After any number of derivations, by any threads, from any objects
(factories or earlier results), in any order, every object that existed before — each factory in
particular — still has the same name, message, source, detail tag and stack. -/
theorem factory_unchanged (h : Heap) (ds : List Deriv) (a : Nat) (ha : a < h.length) :
    (runHeap h ds)[a]? = h[a]? := by
  obtain ⟨l, hl⟩ := runHeap_prefix h ds
  rw [hl, List.getElem?_append_left ha]

/-- every derivation adds exactly the error the sequential chain semantics predicts -/
theorem derive_result (h : Heap) (d : Deriv) (e : E) (he : h[d.addr]? = some e) :
    derive h d = h ++ [step e d.call] := by
  simp [derive, he]

/-! ## Non-vacuity -/

def exFactory : E := ⟨"ErrA".toList, "base".toList, [], [], []⟩
def exFrames : Frames := ⟨"x/sites.(*T).Plain.func1".toList, ["main.main".toList]⟩
def exChain : List Call :=
  [⟨.msg, [" %d ".toList], " 5 ".toList, exFrames⟩,
   ⟨.srcDTagS, ["late:src".toList, "t".toList], [], exFrames⟩,
   ⟨.dTagMsg, ["u".toList, "  ".toList], "  ".toList, exFrames⟩]

instance (c : Call) : Decidable (CallerOutside c) := by unfold CallerOutside; infer_instance

/-- a factory, callers outside gerror, and a chain that exercises message (one extension blank),
tags, a derived source that a later explicit source does not overwrite, and a stack -/
example :
    exFactory.stack = [] ∧ (∀ c ∈ exChain, CallerOutside c) ∧
    run exFactory exChain =
      ⟨"ErrA".toList, "base 5".toList, "sites:(*T):Plain".toList, "t-u".toList, exFrames.toList⟩ := by
  decide

end GErrClone


import Model.Log
/-!
# C18 — log: context loggers keep fields and levels across any call sequence
-/
namespace Log

/-- `With` on the repaired wrapper keeps the level and appends the fields. -/
theorem abs_withC (c : Core) (g : List Field) :
    abs (c.withC true g) = ⟨(abs c).fields ++ g, (abs c).level⟩ := by
  induction c with
  | base l fs => simp [Core.withC, abs, Core.written, Core.level]
  | custom c m ih =>
    simp only [abs, Core.withC, Core.written, Core.level, if_true] at ih ⊢
    simp only [LSpec.mk.injEq] at ih ⊢
    exact ⟨ih.1, trivial⟩

end Log

import Model.GoPrelude
/-! REGENERATED on every run by harness/cmd/go2lean -spec genumvalues from genum/gen/values.go. Do not edit.
Each definition follows the Go method of the same name statement by statement.  `Values` (`[]Value`) is a
`List GValue`; indexing out of range is a panic (an error of `Go.M`); `int64(x)` of a uint64 is `BitVec.toInt`.
Fields of `Value` that are not part of the translation (no translated function reads them): astLine *ast.ValueSpec. -/
namespace Generated.GoGenumValues

/-- `type Value struct` (named GValue here: the struct has a field of its own name) -/
structure GValue where
  Name : String
  Value : Go.U64
  Signed : Bool
  IsDeprecated : Bool
  Line : Nat
  deriving Inhabited

/-- `func (v Value) Less(vIn Value) bool` -/
def GValue.Less (v : GValue) (vIn : GValue) : Go.M (Bool) := do
  if (v.Signed || vIn.Signed) then
    let mut v1 : Int := (BitVec.toInt v.Value)
    let mut v2 : Int := (BitVec.toInt vIn.Value)
    if (v1 == v2) then
      return (decide (v.Name < vIn.Name))
    return (decide (v1 < v2))
  let mut v1 : Go.U64 := v.Value
  let mut v2 : Go.U64 := vIn.Value
  if (v1 == v2) then
    return (decide (v.Name < vIn.Name))
  return (decide (v1 < v2))

/-- `func (s Values) ValueDeduplicatedSet() Values` -/
def GValues.ValueDeduplicatedSet (s : List GValue) : Go.M (List GValue) := do
  if (decide ((List.length s) < 2)) then
    return s
  let mut result : List GValue := ([] : List GValue)
  result := (result ++ [(← Go.listGet s 0)])
  let mut lastValue : Go.U64 := (← Go.listGet s 0).Value
  let mut addedDeprecated : Bool := (← Go.listGet s 0).IsDeprecated
  for i in List.range' 1 ((List.length s) - 1) do
    let mut curr : GValue := (← Go.listGet s i)
    if (lastValue != curr.Value) then
      result := (result ++ [curr])
      lastValue := curr.Value
      addedDeprecated := curr.IsDeprecated
    else
      if (addedDeprecated && (!curr.IsDeprecated)) then
        result ← Go.listSet result ((List.length result) - 1) curr
        addedDeprecated := false
  return result

/-- `func (s Values) getPrimary() (Value, bool)` -/
def GValues.getPrimary (s : List GValue) : Go.M (GValue × Bool) := do
  if ((List.length s) == 1) then
    return ((← Go.listGet s 0), true)
  let mut primary : GValue := (← Go.listGet s 0)
  for i in List.range' 1 ((List.length s) - 1) do
    let mut v : GValue := (← Go.listGet s i)
    if (primary.IsDeprecated && (!v.IsDeprecated)) then
      primary := v
    else
      if ((!primary.IsDeprecated) && (!v.IsDeprecated)) then
        return (primary, false)
  if primary.IsDeprecated then
    return (primary, false)
  return (primary, true)

end Generated.GoGenumValues

// h-gconfig: correspondence runner for /repo/gconfig (properties C03, C10).
package main

import (
	"fmt"
	"os"
	"sort"
	"strconv"
	"strings"

	"github.com/drshriveer/gtools/gconfig"
	"github.com/drshriveer/gtools/genum"
	"verif/harness/internal/hx"
)

// ---------- document trees ----------

type node struct {
	kind string // null str int bool list map
	s    string
	n    int
	b    bool
	xs   []*node
	keys []string
	vals []*node
}

func esc(s string) string {
	var b strings.Builder
	for _, c := range s {
		switch c {
		case ' ':
			b.WriteString("%20")
		case '%':
			b.WriteString("%25")
		case '\n':
			b.WriteString("%0a")
		default:
			b.WriteRune(c)
		}
	}
	return b.String()
}

func unesc(s string) string {
	var b strings.Builder
	for i := 0; i < len(s); i++ {
		if s[i] == '%' && i+2 < len(s)+0 && i+2 <= len(s)-1+0 {
			if v, err := strconv.ParseUint(s[i+1:i+3], 16, 8); err == nil {
				b.WriteByte(byte(v))
				i += 2
				continue
			}
		}
		b.WriteByte(s[i])
	}
	return b.String()
}

func (n *node) tokens(out *[]string) {
	switch n.kind {
	case "null":
		*out = append(*out, "n")
	case "str":
		*out = append(*out, "s:"+esc(n.s))
	case "int":
		*out = append(*out, "i:"+strconv.Itoa(n.n))
	case "bool":
		if n.b {
			*out = append(*out, "b:t")
		} else {
			*out = append(*out, "b:f")
		}
	case "list":
		*out = append(*out, "[")
		for _, x := range n.xs {
			x.tokens(out)
		}
		*out = append(*out, "]")
	case "map":
		*out = append(*out, "{")
		for i, k := range n.keys {
			*out = append(*out, esc(k))
			n.vals[i].tokens(out)
		}
		*out = append(*out, "}")
	}
}

func parseTokens(toks []string) (*node, []string, bool) {
	if len(toks) == 0 {
		return nil, nil, false
	}
	t, rest := toks[0], toks[1:]
	switch {
	case t == "n":
		return &node{kind: "null"}, rest, true
	case t == "{":
		m := &node{kind: "map"}
		for {
			if len(rest) == 0 {
				return nil, nil, false
			}
			if rest[0] == "}" {
				return m, rest[1:], true
			}
			k := unesc(rest[0])
			v, r2, ok := parseTokens(rest[1:])
			if !ok {
				return nil, nil, false
			}
			m.keys = append(m.keys, k)
			m.vals = append(m.vals, v)
			rest = r2
		}
	case t == "[":
		l := &node{kind: "list"}
		for {
			if len(rest) == 0 {
				return nil, nil, false
			}
			if rest[0] == "]" {
				return l, rest[1:], true
			}
			v, r2, ok := parseTokens(rest)
			if !ok {
				return nil, nil, false
			}
			l.xs = append(l.xs, v)
			rest = r2
		}
	case strings.HasPrefix(t, "s:"):
		return &node{kind: "str", s: unesc(t[2:])}, rest, true
	case strings.HasPrefix(t, "i:"):
		v, err := strconv.Atoi(t[2:])
		if err != nil {
			return nil, nil, false
		}
		return &node{kind: "int", n: v}, rest, true
	case t == "b:t":
		return &node{kind: "bool", b: true}, rest, true
	case t == "b:f":
		return &node{kind: "bool", b: false}, rest, true
	}
	return nil, nil, false
}

// yaml renders the tree as YAML flow text (JSON subset: every string and key double-quoted).
func (n *node) yaml(b *strings.Builder) {
	switch n.kind {
	case "null":
		b.WriteString("null")
	case "str":
		b.WriteString(strconv.Quote(n.s))
	case "int":
		b.WriteString(strconv.Itoa(n.n))
	case "bool":
		b.WriteString(strconv.FormatBool(n.b))
	case "list":
		b.WriteString("[")
		for i, x := range n.xs {
			if i > 0 {
				b.WriteString(", ")
			}
			x.yaml(b)
		}
		b.WriteString("]")
	case "map":
		b.WriteString("{")
		for i, k := range n.keys {
			if i > 0 {
				b.WriteString(", ")
			}
			if strings.HasPrefix(k, "#") {
				// a non-string YAML key (int / bool): emitted unquoted, decoded by yaml.v3 into
				// a map[any]any
				b.WriteString(k[1:])
			} else {
				b.WriteString(strconv.Quote(k))
			}
			b.WriteString(": ")
			n.vals[i].yaml(b)
		}
		b.WriteString("}")
	}
}

// render is the canonical form of a value returned by Get[any].
func render(v any) string {
	switch x := v.(type) {
	case nil:
		return "n"
	case string:
		return "s:" + esc(x)
	case int:
		return "i:" + strconv.Itoa(x)
	case int64:
		return "i:" + strconv.FormatInt(x, 10)
	case uint64:
		return "i:" + strconv.FormatUint(x, 10)
	case bool:
		if x {
			return "b:t"
		}
		return "b:f"
	case []any:
		p := make([]string, len(x))
		for i, e := range x {
			p[i] = render(e)
		}
		return "[" + strings.Join(p, " ") + "]"
	case map[string]any:
		ks := make([]string, 0, len(x))
		for k := range x {
			ks = append(ks, k)
		}
		sort.Strings(ks)
		p := make([]string, len(ks))
		for i, k := range ks {
			p[i] = esc(k) + "=" + render(x[k])
		}
		return "{" + strings.Join(p, " ") + "}"
	case map[any]any:
		return "other:nonstring-keys"
	}
	return fmt.Sprintf("other:%T", v)
}

// ---------- implementation side ----------

type dimDecl struct {
	flag  string
	names []string
	enum  func(i int) genum.Enum
}

var dimTable = map[string]dimDecl{
	"dOne":   {"dOne", []string{"D1a", "D1b", "D1c", "D1d"}, func(i int) genum.Enum { return DimOne(i) }},
	"dTwo":   {"dTwo", []string{"D2a", "D2b", "D2c", "D2d", "D2e"}, func(i int) genum.Enum { return DimTwo(i) }},
	"dThree": {"dThree", []string{"D3a", "D3b", "D3c"}, func(i int) genum.Enum { return DimThree(i) }},
}

type gcImpl struct {
	b     *gconfig.Builder
	dims  []string
	cfg   *gconfig.Config
	bytes []byte
	cache *cacheState
}

func (g *gcImpl) Reset() {}

func envNames(flag string) map[string]string {
	return map[string]string{"exact": flag, "upper": strings.ToUpper(flag), "lower": strings.ToLower(flag)}
}

func (g *gcImpl) Exec(line string) (out string) {
	ws := strings.Fields(line)
	if len(ws) >= 2 && ws[0] == "case" && ws[1] == "gc" {
		g.b = gconfig.NewBuilder()
		g.dims = nil
		g.cfg = nil
		g.bytes = nil
		g.cache = nil
		return line
	}
	if len(ws) < 2 || ws[0] != "gc" || g.b == nil {
		return "bad-op"
	}
	switch ws[1] {
	case "dim":
		if len(ws) < 7 {
			return "bad-op"
		}
		dd, ok := dimTable[ws[2]]
		if !ok {
			return "bad-op"
		}
		df, err := strconv.Atoi(ws[3])
		if err != nil || df < 0 || df >= len(dd.names) {
			return "bad-op"
		}
		for _, n := range envNames(dd.flag) {
			os.Unsetenv(n)
		}
		if ws[4] != "none" {
			os.Setenv(envNames(dd.flag)[ws[4]], ws[5])
		}
		defer func() {
			for _, n := range envNames(dd.flag) {
				os.Unsetenv(n)
			}
		}()
		g.b.WithDimension(dd.flag, dd.enum(df)) // panics when the environment does not parse
		g.dims = append(g.dims, ws[2])
		return "ok " + g.dimValue(len(g.dims)-1, nil)
	case "load":
		n, rest, ok := parseTokens(ws[2:])
		if !ok || len(rest) != 0 {
			return "bad-op"
		}
		var b strings.Builder
		n.yaml(&b)
		g.bytes = []byte(b.String())
		cfg, err := g.b.FromBytes(g.bytes)
		if err != nil {
			g.cfg = nil
			return "err"
		}
		g.cfg = cfg
		return "ok"
	case "get", "spec":
		if g.cfg == nil {
			return "noconfig"
		}
		if len(ws) != 3 {
			return "bad-op"
		}
		v, err := gconfig.Get[any](g.cfg, ws[2])
		if err != nil {
			return "notfound"
		}
		return render(v)
	case "gettyped":
		// gc gettyped <str|int|bool|list|map> <path>: typed Get at a leaf / container
		if g.cfg == nil {
			return "noconfig"
		}
		if len(ws) != 4 {
			return "bad-op"
		}
		switch ws[2] {
		case "str":
			v, err := gconfig.Get[string](g.cfg, ws[3])
			if err != nil {
				return "notfound"
			}
			return render(v)
		case "int":
			v, err := gconfig.Get[int](g.cfg, ws[3])
			if err != nil {
				return "notfound"
			}
			return render(v)
		case "bool":
			v, err := gconfig.Get[bool](g.cfg, ws[3])
			if err != nil {
				return "notfound"
			}
			return render(v)
		case "list":
			v, err := gconfig.Get[[]any](g.cfg, ws[3])
			if err != nil {
				return "notfound"
			}
			return render(v)
		case "map":
			v, err := gconfig.Get[map[string]any](g.cfg, ws[3])
			if err != nil {
				return "notfound"
			}
			return render(v)
		}
		return "bad-op"
	case "getnull":
		if g.cfg == nil {
			return "noconfig"
		}
		v, err := gconfig.Get[*int](g.cfg, ws[2])
		if err != nil {
			return "notfound"
		}
		if v == nil {
			return "n"
		}
		return "i:" + strconv.Itoa(*v)
	case "wf":
		// `gc wf <t|f>`: the generator's own claim about the document, checked against Lean's WF
		if len(ws) != 3 {
			return "bad-op"
		}
		return ws[2]
	case "getdim":
		i, err := strconv.Atoi(ws[2])
		if err != nil || i < 0 || i >= len(g.dims) {
			return "bad-op"
		}
		return g.dimValue(i, g.cfg)
	}
	if r, ok := g.execCache(ws); ok {
		return r
	}
	return "bad-op"
}

func (g *gcImpl) dimValue(i int, cfg *gconfig.Config) string {
	if cfg == nil {
		// before loading: ask a throw-away config
		c, err := g.b.FromBytes([]byte("{}"))
		if err != nil {
			c, err = g.b.FromBytes([]byte("{\"zz\": 1}"))
			if err != nil {
				return "err"
			}
		}
		cfg = c
	}
	switch g.dims[i] {
	case "dOne":
		return gconfig.GetDimension[DimOne](cfg).String()
	case "dTwo":
		return gconfig.GetDimension[DimTwo](cfg).String()
	case "dThree":
		return gconfig.GetDimension[DimThree](cfg).String()
	}
	return "bad-op"
}

func main() {
	f := hx.ParseFlags()
	switch f.Prop {
	case "C03":
		runC03(f)
	case "C10":
		runC10(f)
	default:
		fmt.Fprintln(os.Stderr, "h-gconfig: unknown property", f.Prop)
		os.Exit(2)
	}
}

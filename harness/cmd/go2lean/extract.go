// go2lean -spec gconfigextract: translation of `extract` (gconfig/config.go), the walk along a
// dotted key path through the reduced document that every Get/MustGet/GetOrDefault performs.
//
// Fragment: `map[string]any` (a nil map has no keys; seen as an association list), `any` (the
// model's document type GConfig.Y; the nil interface is Y.null, as a YAML null decodes to nil),
// `var x T`, `x := e`, comma-ok map index and comma-ok type assertion assigned to existing
// variables, `for i, k := range keys` (no `continue`), `if … { return a, b }`, `return a, b`.
package main

import (
	"fmt"
	"go/ast"
	"go/parser"
	"go/token"
	"os"
	"path/filepath"
	"strings"
)

type xt struct {
	env map[string]string // variable -> kind: amap | any | bool | int | strs | str
	out strings.Builder
}

func (t *xt) line(ind int, s string) { t.out.WriteString(strings.Repeat("  ", ind) + s + "\n") }

func xKindOfType(e ast.Expr) string {
	switch src(e) {
	case "map[string]any":
		return "amap"
	case "any":
		return "any"
	case "bool":
		return "bool"
	case "[]string":
		return "strs"
	case "string":
		return "str"
	case "int":
		return "int"
	}
	return ""
}

func xLeanType(k string) string {
	switch k {
	case "amap":
		return "List (String × GConfig.Y)"
	case "any":
		return "GConfig.Y"
	case "bool":
		return "Bool"
	case "strs":
		return "List String"
	case "str":
		return "String"
	case "int":
		return "Nat"
	}
	fail("gconfigextract: no Lean type for kind %q", k)
	return ""
}

func (t *xt) kindOf(e ast.Expr) string {
	switch x := e.(type) {
	case *ast.ParenExpr:
		return t.kindOf(x.X)
	case *ast.Ident:
		switch x.Name {
		case "true", "false":
			return "bool"
		case "nil":
			return "nil"
		}
		if k, ok := t.env[x.Name]; ok {
			return k
		}
	case *ast.BasicLit:
		if x.Kind == token.INT {
			return "int"
		}
	case *ast.UnaryExpr:
		if x.Op == token.NOT {
			return "bool"
		}
	case *ast.BinaryExpr:
		switch x.Op {
		case token.LAND, token.LOR, token.LSS, token.EQL, token.NEQ:
			return "bool"
		case token.SUB, token.ADD:
			return "int"
		}
	case *ast.CallExpr:
		if src(x.Fun) == "len" {
			return "int"
		}
	}
	fail("gconfigextract: %s: expression `%s` is outside the translated fragment", at(e), src(e))
	return ""
}

func (t *xt) expr(e ast.Expr) string {
	switch x := e.(type) {
	case *ast.ParenExpr:
		return t.expr(x.X)
	case *ast.Ident:
		if x.Name == "true" || x.Name == "false" {
			return x.Name
		}
		if _, ok := t.env[x.Name]; ok {
			return name(x.Name)
		}
	case *ast.BasicLit:
		if x.Kind == token.INT {
			return x.Value
		}
	case *ast.UnaryExpr:
		if x.Op == token.NOT && t.kindOf(x.X) == "bool" {
			return "(!" + t.expr(x.X) + ")"
		}
	case *ast.BinaryExpr:
		kx, ky := t.kindOf(x.X), t.kindOf(x.Y)
		a, b := t.expr(x.X), t.expr(x.Y)
		switch {
		case x.Op == token.LAND && kx == "bool" && ky == "bool":
			return "(" + a + " && " + b + ")"
		case x.Op == token.LOR && kx == "bool" && ky == "bool":
			return "(" + a + " || " + b + ")"
		case x.Op == token.LSS && kx == "int" && ky == "int":
			return "(decide (" + a + " < " + b + "))"
		case x.Op == token.SUB && kx == "int" && ky == "int":
			// Go's int subtraction may go negative; the only use is `len(keys)-1` compared with an index
			// i >= 0 inside a loop over keys, where len(keys) >= 1, so the truncated Nat difference agrees
			return "(" + a + " - " + b + ")"
		}
	case *ast.CallExpr:
		if src(x.Fun) == "len" && len(x.Args) == 1 && t.kindOf(x.Args[0]) == "strs" {
			return "(List.length " + t.expr(x.Args[0]) + ")"
		}
	}
	fail("gconfigextract: %s: expression `%s` is outside the translated fragment", at(e), src(e))
	return ""
}

func (t *xt) retVals(x *ast.ReturnStmt) string {
	if len(x.Results) != 2 {
		fail("gconfigextract: %s: `%s`", at(x), src(x))
	}
	a := ""
	switch t.kindOf(x.Results[0]) {
	case "nil":
		a = "GConfig.Y.null"
	case "any":
		a = t.expr(x.Results[0])
	default:
		fail("gconfigextract: %s: first result of `%s`", at(x), src(x))
	}
	if t.kindOf(x.Results[1]) != "bool" {
		fail("gconfigextract: %s: second result of `%s`", at(x), src(x))
	}
	return "(" + a + ", " + t.expr(x.Results[1]) + ")"
}

func (t *xt) stmt(ind int, s ast.Stmt, inLoop bool) {
	switch x := s.(type) {
	case *ast.DeclStmt:
		gd, ok := x.Decl.(*ast.GenDecl)
		if ok && gd.Tok == token.VAR && len(gd.Specs) == 1 {
			vs := gd.Specs[0].(*ast.ValueSpec)
			if len(vs.Names) == 1 && len(vs.Values) == 0 && vs.Type != nil {
				k := xKindOfType(vs.Type)
				zero := map[string]string{"any": "GConfig.Y.null", "bool": "false", "int": "0", "amap": "[]"}[k]
				if zero != "" {
					t.env[vs.Names[0].Name] = k
					t.line(ind, "let mut "+name(vs.Names[0].Name)+" : "+xLeanType(k)+" := "+zero)
					return
				}
			}
		}
	case *ast.AssignStmt:
		if x.Tok == token.DEFINE && len(x.Lhs) == 1 && len(x.Rhs) == 1 {
			id := x.Lhs[0].(*ast.Ident)
			k := t.kindOf(x.Rhs[0])
			v := t.expr(x.Rhs[0])
			t.env[id.Name] = k
			t.line(ind, "let mut "+name(id.Name)+" : "+xLeanType(k)+" := "+v)
			return
		}
		if x.Tok == token.ASSIGN && len(x.Lhs) == 2 && len(x.Rhs) == 1 {
			a, ok1 := x.Lhs[0].(*ast.Ident)
			b, ok2 := x.Lhs[1].(*ast.Ident)
			if ok1 && ok2 {
				ka, kb := t.env[a.Name], t.env[b.Name]
				switch r := x.Rhs[0].(type) {
				case *ast.IndexExpr: // last, ok = m[k]
					if ka == "any" && kb == "bool" && t.kindOf(r.X) == "amap" && t.kindOf(r.Index) == "str" {
						t.line(ind, "("+name(a.Name)+", "+name(b.Name)+") := GoAny.amapGet "+t.expr(r.X)+" "+t.expr(r.Index))
						return
					}
				case *ast.TypeAssertExpr: // m, mOK = last.(map[string]any)
					if ka == "amap" && kb == "bool" && r.Type != nil && src(r.Type) == "map[string]any" && t.kindOf(r.X) == "any" {
						t.line(ind, "("+name(a.Name)+", "+name(b.Name)+") := GoAny.asMap "+t.expr(r.X))
						return
					}
				}
			}
		}
	case *ast.IfStmt:
		if x.Init == nil && x.Else == nil && len(x.Body.List) == 1 && t.kindOf(x.Cond) == "bool" {
			if r, ok := x.Body.List[0].(*ast.ReturnStmt); ok {
				t.line(ind, "if "+t.expr(x.Cond)+" then")
				t.line(ind+1, "return "+t.retVals(r))
				return
			}
		}
	case *ast.RangeStmt:
		if inLoop {
			break
		}
		ik, ok1 := x.Key.(*ast.Ident)
		vk, ok2 := x.Value.(*ast.Ident)
		if ok1 && ok2 && x.Tok == token.DEFINE && t.kindOf(x.X) == "strs" && ik.Name != "_" && vk.Name != "_" {
			hasContinue := false
			ast.Inspect(x.Body, func(n ast.Node) bool {
				if b, ok := n.(*ast.BranchStmt); ok && (b.Tok == token.CONTINUE || b.Tok == token.BREAK || b.Tok == token.GOTO) {
					hasContinue = true
				}
				return true
			})
			if hasContinue || assignsTo(x.Body, ik.Name) || assignsTo(x.Body, vk.Name) || assignsTo(x.Body, src(x.X)) {
				fail("gconfigextract: %s: the loop body branches or assigns the loop variables", at(x))
			}
			t.env[ik.Name], t.env[vk.Name] = "int", "str"
			// the index variable: incremented at the end of every iteration (no continue/break)
			t.line(ind, "let mut "+name(ik.Name)+" : Nat := 0")
			t.line(ind, "for "+name(vk.Name)+" in "+t.expr(x.X)+" do")
			for _, b := range x.Body.List {
				t.stmt(ind+1, b, true)
			}
			t.line(ind+1, name(ik.Name)+" := "+name(ik.Name)+" + 1")
			delete(t.env, ik.Name)
			delete(t.env, vk.Name)
			return
		}
	case *ast.ReturnStmt:
		t.line(ind, "return "+t.retVals(x))
		return
	}
	fail("gconfigextract: %s: statement `%s` is outside the translated fragment", at(s), src(s))
}

func runGConfigExtract(repo, out string) {
	file, err := parser.ParseFile(fset, filepath.Join(repo, "gconfig/config.go"), nil, 0)
	if err != nil {
		fail("%v", err)
	}
	var fd *ast.FuncDecl
	for _, d := range file.Decls {
		if f, ok := d.(*ast.FuncDecl); ok && f.Name.Name == "extract" && f.Recv == nil {
			fd = f
		}
	}
	if fd == nil {
		fail("gconfigextract: func extract not found in gconfig/config.go")
	}
	t := &xt{env: map[string]string{}}
	var ps []string
	for _, p := range fd.Type.Params.List {
		for _, n := range p.Names {
			ps = append(ps, n.Name+" "+src(p.Type))
		}
	}
	if strings.Join(ps, ", ") != "m map[string]any, keys []string" {
		fail("gconfigextract: extract has parameters (%s), the translation assumes (m map[string]any, keys []string)", strings.Join(ps, ", "))
	}
	if fd.Type.Results == nil || len(fd.Type.Results.List) != 2 || src(fd.Type.Results.List[0].Type) != "any" || src(fd.Type.Results.List[1].Type) != "bool" ||
		len(fd.Type.Results.List[0].Names) > 0 {
		fail("gconfigextract: extract does not return (any, bool)")
	}
	t.env["m"], t.env["keys"] = "amap", "strs"
	if assignsTo(fd.Body, "keys") {
		fail("gconfigextract: extract assigns its parameter keys")
	}
	t.line(1, "let mut m := m")
	for _, s := range fd.Body.List {
		t.stmt(1, s, false)
	}
	if n := len(fd.Body.List); n == 0 || !endsInReturn(fd.Body.List[n-1]) {
		fail("gconfigextract: extract can fall off its end")
	}
	var b strings.Builder
	b.WriteString("import Model.GoAny\n")
	b.WriteString("/-! REGENERATED on every run by harness/cmd/go2lean -spec gconfigextract from gconfig/config.go (func extract).\nDo not edit.  The definition follows the Go function statement by statement; `map[string]any` is an\nassociation list (nil = no keys), `any` is the document type `GConfig.Y` (nil interface = `Y.null`); the\ncomma-ok forms are `GoAny.amapGet` / `GoAny.asMap` (Model/GoAny.lean). -/\n")
	b.WriteString("namespace Generated.GoGConfigExtract\n\n")
	fmt.Fprintf(&b, "/-- `%s` -/\n", src(&ast.FuncDecl{Name: fd.Name, Type: fd.Type}))
	b.WriteString("def extract (m : List (String × GConfig.Y)) (keys : List String) : Go.M (GConfig.Y × Bool) := do\n")
	b.WriteString(t.out.String())
	b.WriteString("\nend Generated.GoGConfigExtract\n")
	if err := os.WriteFile(out, []byte(b.String()), 0o644); err != nil {
		fail("%v", err)
	}
	fmt.Printf("go2lean gconfigextract: extract (%d statements) -> %s\n", len(fd.Body.List), out)
}

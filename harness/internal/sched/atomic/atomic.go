// Package atomic mirrors sync/atomic (types and functions) for instrumented copies of /repo
// sources; every operation is one scheduler step. Sequential consistency is by construction (one
// goroutine runs at a time). Counter-like objects report "ctr-read"/"ctr-update", pointer-like
// ones "ptr-read"/"ptr-update".
package atomic

import (
	"unsafe"

	"verif/harness/internal/sched"
)

func yield(kind string, obj any, a, b any) *sched.Op {
	op := &sched.Op{Kind: kind, Obj: obj, A: a, B: b}
	sched.Yield(op)
	return op
}

type Int32 struct{ v int32 }

func (x *Int32) Load() int32   { op := yield("ctr-read", x, nil, nil); op.Res = x.v; return x.v }
func (x *Int32) Store(v int32) { op := yield("ctr-update", x, v, nil); x.v = v; op.Res = v }
func (x *Int32) Add(d int32) int32 {
	op := yield("ctr-update", x, d, nil)
	x.v += d
	op.Res = x.v
	return x.v
}
func (x *Int32) Swap(v int32) int32 {
	op := yield("ctr-update", x, v, nil)
	old := x.v
	x.v = v
	op.Res = v
	return old
}
func (x *Int32) CompareAndSwap(old, new int32) bool {
	op := yield("ctr-update", x, old, new)
	if x.v == old {
		x.v = new
		op.OK = true
	}
	op.Res = x.v
	return op.OK
}
func (x *Int32) And(m int32) int32 {
	op := yield("ctr-update", x, m, nil)
	old := x.v
	x.v &= m
	op.Res = x.v
	return old
}
func (x *Int32) Or(m int32) int32 {
	op := yield("ctr-update", x, m, nil)
	old := x.v
	x.v |= m
	op.Res = x.v
	return old
}

func LoadInt32(p *int32) int32     { op := yield("ctr-read", p, nil, nil); op.Res = *p; return *p }
func StoreInt32(p *int32, v int32) { op := yield("ctr-update", p, v, nil); *p = v; op.Res = v }
func AddInt32(p *int32, d int32) int32 {
	op := yield("ctr-update", p, d, nil)
	*p += d
	op.Res = *p
	return *p
}
func SwapInt32(p *int32, v int32) int32 {
	op := yield("ctr-update", p, v, nil)
	old := *p
	*p = v
	op.Res = v
	return old
}
func CompareAndSwapInt32(p *int32, old, new int32) bool {
	op := yield("ctr-update", p, old, new)
	if *p == old {
		*p = new
		op.OK = true
	}
	op.Res = *p
	return op.OK
}

type Int64 struct{ v int64 }

func (x *Int64) Load() int64   { op := yield("ctr-read", x, nil, nil); op.Res = x.v; return x.v }
func (x *Int64) Store(v int64) { op := yield("ctr-update", x, v, nil); x.v = v; op.Res = v }
func (x *Int64) Add(d int64) int64 {
	op := yield("ctr-update", x, d, nil)
	x.v += d
	op.Res = x.v
	return x.v
}
func (x *Int64) Swap(v int64) int64 {
	op := yield("ctr-update", x, v, nil)
	old := x.v
	x.v = v
	op.Res = v
	return old
}
func (x *Int64) CompareAndSwap(old, new int64) bool {
	op := yield("ctr-update", x, old, new)
	if x.v == old {
		x.v = new
		op.OK = true
	}
	op.Res = x.v
	return op.OK
}
func (x *Int64) And(m int64) int64 {
	op := yield("ctr-update", x, m, nil)
	old := x.v
	x.v &= m
	op.Res = x.v
	return old
}
func (x *Int64) Or(m int64) int64 {
	op := yield("ctr-update", x, m, nil)
	old := x.v
	x.v |= m
	op.Res = x.v
	return old
}

func LoadInt64(p *int64) int64     { op := yield("ctr-read", p, nil, nil); op.Res = *p; return *p }
func StoreInt64(p *int64, v int64) { op := yield("ctr-update", p, v, nil); *p = v; op.Res = v }
func AddInt64(p *int64, d int64) int64 {
	op := yield("ctr-update", p, d, nil)
	*p += d
	op.Res = *p
	return *p
}
func SwapInt64(p *int64, v int64) int64 {
	op := yield("ctr-update", p, v, nil)
	old := *p
	*p = v
	op.Res = v
	return old
}
func CompareAndSwapInt64(p *int64, old, new int64) bool {
	op := yield("ctr-update", p, old, new)
	if *p == old {
		*p = new
		op.OK = true
	}
	op.Res = *p
	return op.OK
}

type Uint32 struct{ v uint32 }

func (x *Uint32) Load() uint32   { op := yield("ctr-read", x, nil, nil); op.Res = x.v; return x.v }
func (x *Uint32) Store(v uint32) { op := yield("ctr-update", x, v, nil); x.v = v; op.Res = v }
func (x *Uint32) Add(d uint32) uint32 {
	op := yield("ctr-update", x, d, nil)
	x.v += d
	op.Res = x.v
	return x.v
}
func (x *Uint32) Swap(v uint32) uint32 {
	op := yield("ctr-update", x, v, nil)
	old := x.v
	x.v = v
	op.Res = v
	return old
}
func (x *Uint32) CompareAndSwap(old, new uint32) bool {
	op := yield("ctr-update", x, old, new)
	if x.v == old {
		x.v = new
		op.OK = true
	}
	op.Res = x.v
	return op.OK
}
func (x *Uint32) And(m uint32) uint32 {
	op := yield("ctr-update", x, m, nil)
	old := x.v
	x.v &= m
	op.Res = x.v
	return old
}
func (x *Uint32) Or(m uint32) uint32 {
	op := yield("ctr-update", x, m, nil)
	old := x.v
	x.v |= m
	op.Res = x.v
	return old
}

func LoadUint32(p *uint32) uint32     { op := yield("ctr-read", p, nil, nil); op.Res = *p; return *p }
func StoreUint32(p *uint32, v uint32) { op := yield("ctr-update", p, v, nil); *p = v; op.Res = v }
func AddUint32(p *uint32, d uint32) uint32 {
	op := yield("ctr-update", p, d, nil)
	*p += d
	op.Res = *p
	return *p
}
func SwapUint32(p *uint32, v uint32) uint32 {
	op := yield("ctr-update", p, v, nil)
	old := *p
	*p = v
	op.Res = v
	return old
}
func CompareAndSwapUint32(p *uint32, old, new uint32) bool {
	op := yield("ctr-update", p, old, new)
	if *p == old {
		*p = new
		op.OK = true
	}
	op.Res = *p
	return op.OK
}

type Uint64 struct{ v uint64 }

func (x *Uint64) Load() uint64   { op := yield("ctr-read", x, nil, nil); op.Res = x.v; return x.v }
func (x *Uint64) Store(v uint64) { op := yield("ctr-update", x, v, nil); x.v = v; op.Res = v }
func (x *Uint64) Add(d uint64) uint64 {
	op := yield("ctr-update", x, d, nil)
	x.v += d
	op.Res = x.v
	return x.v
}
func (x *Uint64) Swap(v uint64) uint64 {
	op := yield("ctr-update", x, v, nil)
	old := x.v
	x.v = v
	op.Res = v
	return old
}
func (x *Uint64) CompareAndSwap(old, new uint64) bool {
	op := yield("ctr-update", x, old, new)
	if x.v == old {
		x.v = new
		op.OK = true
	}
	op.Res = x.v
	return op.OK
}
func (x *Uint64) And(m uint64) uint64 {
	op := yield("ctr-update", x, m, nil)
	old := x.v
	x.v &= m
	op.Res = x.v
	return old
}
func (x *Uint64) Or(m uint64) uint64 {
	op := yield("ctr-update", x, m, nil)
	old := x.v
	x.v |= m
	op.Res = x.v
	return old
}

func LoadUint64(p *uint64) uint64     { op := yield("ctr-read", p, nil, nil); op.Res = *p; return *p }
func StoreUint64(p *uint64, v uint64) { op := yield("ctr-update", p, v, nil); *p = v; op.Res = v }
func AddUint64(p *uint64, d uint64) uint64 {
	op := yield("ctr-update", p, d, nil)
	*p += d
	op.Res = *p
	return *p
}
func SwapUint64(p *uint64, v uint64) uint64 {
	op := yield("ctr-update", p, v, nil)
	old := *p
	*p = v
	op.Res = v
	return old
}
func CompareAndSwapUint64(p *uint64, old, new uint64) bool {
	op := yield("ctr-update", p, old, new)
	if *p == old {
		*p = new
		op.OK = true
	}
	op.Res = *p
	return op.OK
}

type Uintptr struct{ v uintptr }

func (x *Uintptr) Load() uintptr   { op := yield("ctr-read", x, nil, nil); op.Res = x.v; return x.v }
func (x *Uintptr) Store(v uintptr) { op := yield("ctr-update", x, v, nil); x.v = v; op.Res = v }
func (x *Uintptr) Add(d uintptr) uintptr {
	op := yield("ctr-update", x, d, nil)
	x.v += d
	op.Res = x.v
	return x.v
}
func (x *Uintptr) Swap(v uintptr) uintptr {
	op := yield("ctr-update", x, v, nil)
	old := x.v
	x.v = v
	op.Res = v
	return old
}
func (x *Uintptr) CompareAndSwap(old, new uintptr) bool {
	op := yield("ctr-update", x, old, new)
	if x.v == old {
		x.v = new
		op.OK = true
	}
	op.Res = x.v
	return op.OK
}
func (x *Uintptr) And(m uintptr) uintptr {
	op := yield("ctr-update", x, m, nil)
	old := x.v
	x.v &= m
	op.Res = x.v
	return old
}
func (x *Uintptr) Or(m uintptr) uintptr {
	op := yield("ctr-update", x, m, nil)
	old := x.v
	x.v |= m
	op.Res = x.v
	return old
}

func LoadUintptr(p *uintptr) uintptr     { op := yield("ctr-read", p, nil, nil); op.Res = *p; return *p }
func StoreUintptr(p *uintptr, v uintptr) { op := yield("ctr-update", p, v, nil); *p = v; op.Res = v }
func AddUintptr(p *uintptr, d uintptr) uintptr {
	op := yield("ctr-update", p, d, nil)
	*p += d
	op.Res = *p
	return *p
}
func SwapUintptr(p *uintptr, v uintptr) uintptr {
	op := yield("ctr-update", p, v, nil)
	old := *p
	*p = v
	op.Res = v
	return old
}
func CompareAndSwapUintptr(p *uintptr, old, new uintptr) bool {
	op := yield("ctr-update", p, old, new)
	if *p == old {
		*p = new
		op.OK = true
	}
	op.Res = *p
	return op.OK
}

type Bool struct{ v bool }

func (x *Bool) Load() bool   { op := yield("ctr-read", x, nil, nil); op.Res = x.v; return x.v }
func (x *Bool) Store(v bool) { op := yield("ctr-update", x, v, nil); x.v = v; op.Res = v }
func (x *Bool) Swap(v bool) bool {
	op := yield("ctr-update", x, v, nil)
	old := x.v
	x.v = v
	op.Res = v
	return old
}
func (x *Bool) CompareAndSwap(old, new bool) bool {
	op := yield("ctr-update", x, old, new)
	if x.v == old {
		x.v = new
		op.OK = true
	}
	op.Res = x.v
	return op.OK
}

// Pointer mirrors atomic.Pointer[T].
type Pointer[T any] struct{ p *T }

func (x *Pointer[T]) Load() *T { op := yield("ptr-read", x, nil, nil); op.Res = x.p; return x.p }
func (x *Pointer[T]) Store(p *T) {
	op := yield("ptr-update", x, nil, p)
	x.p = p
	op.OK = true
	op.Res = p
}
func (x *Pointer[T]) Swap(p *T) *T {
	op := yield("ptr-update", x, nil, p)
	old := x.p
	x.p = p
	op.A = old
	op.OK = true
	op.Res = p
	return old
}
func (x *Pointer[T]) CompareAndSwap(old, new *T) bool {
	op := yield("ptr-update", x, old, new)
	if x.p == old {
		x.p = new
		op.OK = true
	}
	op.Res = x.p
	return op.OK
}

// Value mirrors atomic.Value.
type Value struct{ v any }

func (x *Value) Load() any   { op := yield("ptr-read", x, nil, nil); op.Res = x.v; return x.v }
func (x *Value) Store(v any) { op := yield("ptr-update", x, nil, v); x.v = v; op.OK = true; op.Res = v }
func (x *Value) Swap(v any) any {
	op := yield("ptr-update", x, nil, v)
	old := x.v
	x.v = v
	op.OK = true
	return old
}
func (x *Value) CompareAndSwap(old, new any) bool {
	op := yield("ptr-update", x, old, new)
	if x.v == old {
		x.v = new
		op.OK = true
	}
	return op.OK
}

func LoadPointer(p *unsafe.Pointer) unsafe.Pointer {
	op := yield("ptr-read", p, nil, nil)
	op.Res = *p
	return *p
}
func StorePointer(p *unsafe.Pointer, v unsafe.Pointer) {
	op := yield("ptr-update", p, nil, v)
	*p = v
	op.OK = true
}
func SwapPointer(p *unsafe.Pointer, v unsafe.Pointer) unsafe.Pointer {
	op := yield("ptr-update", p, nil, v)
	old := *p
	*p = v
	op.OK = true
	return old
}
func CompareAndSwapPointer(p *unsafe.Pointer, old, new unsafe.Pointer) bool {
	op := yield("ptr-update", p, old, new)
	if *p == old {
		*p = new
		op.OK = true
	}
	return op.OK
}

import Model.GErrClone
import Generated.GoGerrorGen
import Lemmas.GoLoop
import Lemmas.GErrClone
import Properties.C07Tie
import Properties.C09
/-!
# C09, tie A by translation
-/
set_option linter.unusedSectionVars false
set_option linter.unusedSimpArgs false
set_option linter.unusedVariables false
namespace C09Tie
open Generated GErrClone

variable {τ σ : Type}

/-! ## `createField` -/

/-- what `createField` can say about a struct field -/
inductive Parsed where
  | skip | bad | field (f : FieldDef)
  deriving DecidableEq, Repr

def validOpts : List Str := [Go.str "clone", Go.str "print"]

/-- the model's field parser (`GErrClone.createField`) together with the two outcomes the model
leaves out: no `gerror` tag → the field is skipped; an option other than `clone`/`print` → the
generator stops with an error -/
def parseRaw (r : RawField) : Parsed :=
  match r.tagName with
  | none => .skip
  | some _ => if r.opts.all (fun o => decide (o ∈ validOpts)) then .field (createField r) else .bad

/-- the struct field as the library calls present it -/
def rawOf (env : GoGerrorGen.Env τ σ) (v : GoGerrorGen.Var) (tagLine zero : Str) : RawField :=
  let p := env.structtagParse tagLine
  let q := env.tagsGet p.1 (Go.str "gerror")
  { name := v.Name, embedded := v.Embedded,
    tagName := if p.2 || q.2 then none else some q.1.Name,
    opts := q.1.Options, zero := zero }

/-- a model field as the generator's `Field` (the generator does not know the zero value) -/
def absF (f : FieldDef) : GoGerrorGen.Field := ⟨f.name, f.printAs, f.clone, f.print⟩

def badOptions : GoGerrorGen.GoError := ⟨Go.str "field %s has unsupported options; vald=%+v found=%+v"⟩

def parsedResult : Parsed → Option GoGerrorGen.Field × Option GoGerrorGen.GoError
  | .skip => (none, none)
  | .bad => (none, some badOptions)
  | .field f => (some (absF f), none)

theorem str_clone : Go.str "clone" = "clone".toList := rfl
theorem str_print : Go.str "print" = "print".toList := rfl
theorem str_us : Go.str "_" = ['_'] := by decide

theorem has_valid (opts : List Str) :
    SetM.has (SetM.make [Go.str "clone", Go.str "print"]) opts = opts.all (fun o => decide (o ∈ validOpts)) := by
  have h : SetM.make [Go.str "clone", Go.str "print"] = some validOpts := by decide
  rw [h]; simp [SetM.has, SetM.elems, validOpts]

theorem go_createField_eq (env : GoGerrorGen.Env τ σ) (v : GoGerrorGen.Var) (tagLine zero : Str) :
    GoGerrorGen.createField env v tagLine = pure (parsedResult (parseRaw (rawOf env v tagLine zero))) := by
  unfold GoGerrorGen.createField
  rw [C07Tie.go_make_eq]
  simp only [pure_bind, C07Tie.go_has_eq, has_valid]
  unfold parseRaw rawOf
  simp only []
  generalize env.structtagParse tagLine = p
  obtain ⟨tags, e1⟩ := p
  generalize env.tagsGet tags (Go.str "gerror") = q
  obtain ⟨⟨n, opts⟩, e2⟩ := q
  cases e1 <;> cases e2 <;> simp only [Bool.or_true, Bool.or_false, Bool.false_eq_true, if_true, if_false, parsedResult] <;> try rfl
  by_cases hv : (opts.all fun o => decide (o ∈ validOpts)) = true
  · by_cases hn : n = ['_']
    · subst hn
      simp [hv, str_us, createField, absF, badOptions, str_clone, str_print, List.contains_iff_mem]
    · simp [hv, hn, str_us, createField, absF, badOptions, str_clone, str_print, List.contains_iff_mem]
  · simp [hv, badOptions]

/-! ## `filter`, `Fields.Less`, `sort.Sort` -/

theorem go_filter_eq {α : Type} (xs : List α) (p : α → Bool) : GoGerrorGen.filter xs p = pure (xs.filter p) := by
  unfold GoGerrorGen.filter
  simp only [bind_pure_comp]
  rw [GoLoop.forIn_yield _ (fun (acc : List α) a => if p a then acc ++ [a] else acc) (fun _ => True) (fun _ _ _ => trivial)
    (by intro a b _; by_cases h : p a <;> simp [h]) _ _ trivial]
  have key : ∀ (acc : List α), xs.foldl (fun acc a => if p a then acc ++ [a] else acc) acc = acc ++ xs.filter p := by
    induction xs with
    | nil => intro acc; simp
    | cons a as ih =>
      intro acc
      by_cases h : p a <;> simp [List.foldl_cons, ih, h, List.filter_cons]
  simp [key]

/-- what the generated `Less` says about two elements -/
def nameLt (a b : GoGerrorGen.Field) : Bool := decide (a.Name < b.Name)

/-- `Fields.Less(i, j)` compares the names of the i-th and j-th element, and cannot panic in range -/
theorem go_less_eq (s : List GoGerrorGen.Field) (i j : Nat) (hi : i < s.length) (hj : j < s.length) :
    GoGerrorGen.Fields.Less s i j = pure (nameLt s[i] s[j]) := by
  unfold GoGerrorGen.Fields.Less Go.listGet nameLt
  simp [hi, hj]

theorem char_lt_iff (a b : Char) : a < b ↔ a.toNat < b.toNat := by
  rw [Char.lt_def, UInt32.lt_iff_toNat_lt]; rfl

theorem char_eq_iff (a b : Char) : a = b ↔ a.toNat = b.toNat := by
  constructor
  · intro h; rw [h]
  · intro h; exact Char.ext (UInt32.toNat_inj.mp h)

/-- Go's `<` on strings is the strict part of the model's `strLe` -/
theorem lt_iff_strLe : ∀ (a b : Str), a < b ↔ strLe b a = false
  | [], [] => by simp [strLe]
  | [], b :: bs => by simp [strLe]
  | a :: as, [] => by simp [strLe]
  | a :: as, b :: bs => by
    rw [List.cons_lt_cons_iff, strLe, char_lt_iff, char_eq_iff, lt_iff_strLe as bs]
    by_cases h1 : b.toNat < a.toNat
    · simp [h1]; omega
    · by_cases h2 : a.toNat < b.toNat
      · simp [h1, h2]
      · have : a.toNat = b.toNat := by omega
        simp [h1, h2, this]

theorem nameLt_false_iff (a b : FieldDef) : nameLt (absF b) (absF a) = false ↔ strLe a.name b.name = true := by
  unfold nameLt absF
  simp only [decide_eq_false_iff_not, lt_iff_strLe]
  cases strLe a.name b.name <;> simp

/-- The contract of `sort.Sort` (package sort: "Sort sorts data in ascending order as determined by
the Less method … not guaranteed to be stable") for a `Less(i, j)` that compares the elements at
`i` and `j` with `lt`: the result is a rearrangement of the input in which no element is `lt` an
earlier one. -/
def SortOK (env : GoGerrorGen.Env τ σ) : Prop :=
  ∀ (lt : GoGerrorGen.Field → GoGerrorGen.Field → Bool) (less : List GoGerrorGen.Field → Nat → Nat → Go.M Bool),
    (∀ s i j (hi : i < s.length) (hj : j < s.length), less s i j = pure (lt s[i] s[j])) →
    ∀ l, (env.sortSort less l).Perm l ∧ (env.sortSort less l).Pairwise (fun a b => lt b a = false)

theorem strLe_antisymm : ∀ (a b : Str), strLe a b = true → strLe b a = true → a = b
  | [], [], _, _ => rfl
  | [], b :: bs, _, h => by simp [strLe] at h
  | a :: as, [], h, _ => by simp [strLe] at h
  | a :: as, b :: bs, h1, h2 => by
    unfold strLe at h1 h2
    by_cases h : a.toNat < b.toNat
    · have h' : ¬ b.toNat < a.toNat := by omega
      simp [h, h'] at h2
    · by_cases h' : b.toNat < a.toNat
      · simp [h, h'] at h1
      · simp [h, h'] at h1 h2
        have : a = b := (char_eq_iff a b).mpr (by omega)
        rw [this, strLe_antisymm as bs h1 h2]

theorem eq_of_nodup_map {α β : Type} (f : α → β) : ∀ (l : List α), (l.map f).Nodup →
    ∀ a ∈ l, ∀ b ∈ l, f a = f b → a = b
  | [], _, a, ha, _, _, _ => by cases ha
  | x :: xs, hd, a, ha, b, hb, hab => by
    simp only [List.map_cons, List.nodup_cons] at hd
    rcases List.mem_cons.mp ha with rfl | ha' <;> rcases List.mem_cons.mp hb with rfl | hb'
    · rfl
    · exact absurd (hab ▸ List.mem_map_of_mem hb') hd.1
    · exact absurd (hab ▸ List.mem_map_of_mem ha') hd.1
    · exact eq_of_nodup_map f xs hd.2 a ha' b hb' hab

/-- **Sorting with the translated `Less` is the model's `sortFields`** whenever the field names are
distinct (they are the field names of one struct): every algorithm that meets the contract of
`sort.Sort` yields the same list. -/
theorem go_sort_eq (env : GoGerrorGen.Env τ σ) (hs : SortOK env) (l : List FieldDef) (hd : (l.map (·.name)).Nodup) :
    env.sortSort GoGerrorGen.Fields.Less (l.map absF) = (sortFields l).map absF := by
  obtain ⟨hperm, hsorted⟩ := hs nameLt GoGerrorGen.Fields.Less go_less_eq (l.map absF)
  have hperm2 : ((sortFields l).map absF).Perm (l.map absF) := (sortFields_perm l).map absF
  have hnames : ∀ a ∈ l, ∀ b ∈ l, a.name = b.name → a = b := by
    intro a ha b hb hab
    exact eq_of_nodup_map (·.name) l hd a ha b hb hab
  apply List.Perm.eq_of_pairwise (le := fun a b => nameLt b a = false) _ hsorted _ (hperm.trans hperm2.symm)
  · intro a b ha hb h1 h2
    obtain ⟨a', ha', rfl⟩ := List.mem_map.mp (hperm.mem_iff.mp ha)
    obtain ⟨b', hb', rfl⟩ := List.mem_map.mp (hperm2.mem_iff.mp hb)
    rw [nameLt_false_iff] at h1 h2
    rw [hnames a' ha' b' hb' (strLe_antisymm _ _ h1 h2)]
  · rw [List.pairwise_map]
    exact (sortFields_sorted l).imp (fun {a b} h => (nameLt_false_iff a b).mpr h)

/-! ## `FieldsToPrint`, `FieldsToClone` -/

theorem filter_map_absF (fs : List FieldDef) (p : GoGerrorGen.Field → Bool) :
    (fs.map absF).filter p = (fs.filter (fun f => p (absF f))).map absF := by
  induction fs with
  | nil => rfl
  | cons a as ih => by_cases h : p (absF a) <;> simp [List.filter_cons, h, ih]

theorem nodup_names_filter (fs : List FieldDef) (p : FieldDef → Bool) (hd : (fs.map (·.name)).Nodup) :
    ((fs.filter p).map (·.name)).Nodup :=
  ((List.filter_sublist (p := p) (l := fs)).map _).nodup hd

/-- **The translated `FieldsToPrint` is the model's `fieldsToPrint`**, for every list of fields with
distinct names and every sorting algorithm that meets the contract of `sort.Sort`. -/
theorem go_fieldsToPrint_eq (env : GoGerrorGen.Env τ σ) (hs : SortOK env) (tn : Str) (fs : List FieldDef)
    (hd : (fs.map (·.name)).Nodup) :
    GoGerrorGen.ErrorDesc.FieldsToPrint env ⟨tn, fs.map absF⟩ = pure ((fieldsToPrint fs).map absF) := by
  unfold GoGerrorGen.ErrorDesc.FieldsToPrint fieldsToPrint
  simp only [go_filter_eq, pure_bind, filter_map_absF]
  rw [go_sort_eq env hs _ (nodup_names_filter fs _ hd)]
  rfl

theorem go_fieldsToClone_eq (env : GoGerrorGen.Env τ σ) (hs : SortOK env) (tn : Str) (fs : List FieldDef)
    (hd : (fs.map (·.name)).Nodup) :
    GoGerrorGen.ErrorDesc.FieldsToClone env ⟨tn, fs.map absF⟩ = pure ((fieldsToClone fs).map absF) := by
  unfold GoGerrorGen.ErrorDesc.FieldsToClone fieldsToClone
  simp only [go_filter_eq, pure_bind, filter_map_absF]
  rw [go_sort_eq env hs _ (nodup_names_filter fs _ hd)]
  rfl

/-! ## the field loop of `createErrorDesc` -/

section
variable {α ρ ς : Type}
theorem forIn_idx_searchFold2 [Inhabited α] (xs : List α)
    (f : Nat → Option ρ × ς → Go.M (ForInStep (Option ρ × ς))) (step : ς → α → Sum ς (ρ × ς))
    (h : ∀ i (hi : i < xs.length) s, f i (none, s) = pure (match step s xs[i] with
      | .inl s' => ForInStep.yield (none, s') | .inr (r, s') => ForInStep.done (some r, s'))) :
    ∀ (k : Nat) (s : ς), k ≤ xs.length →
      forIn (List.range' k (xs.length - k)) (none, s) f = pure (GoLoop.searchFold2 step s (xs.drop k)) := by
  intro k
  generalize hn : xs.length - k = n
  induction n generalizing k with
  | zero =>
    intro s hk
    have : xs.drop k = [] := List.drop_eq_nil_of_le (by omega)
    simp [this, GoLoop.searchFold2]
  | succ n ih =>
    intro s hk
    have hlt : k < xs.length := by omega
    have hd : xs.drop k = xs[k] :: xs.drop (k + 1) := List.drop_eq_getElem_cons hlt
    rw [hd, List.range'_succ, List.forIn_cons, h k hlt s]
    unfold GoLoop.searchFold2
    cases step s xs[k] with
    | inl s' => simpa using ih (k + 1) (by omega) s' (by omega)
    | inr r => obtain ⟨r, s'⟩ := r; simp

theorem forIn_idx_searchFold2_zero [Inhabited α] (xs : List α)
    (f : Nat → Option ρ × ς → Go.M (ForInStep (Option ρ × ς))) (step : ς → α → Sum ς (ρ × ς))
    (h : ∀ i (hi : i < xs.length) s, f i (none, s) = pure (match step s xs[i] with
      | .inl s' => ForInStep.yield (none, s') | .inr (r, s') => ForInStep.done (some r, s'))) (s : ς) :
    forIn (List.range' 0 xs.length) (none, s) f = pure (GoLoop.searchFold2 step s xs) := by
  have := forIn_idx_searchFold2 xs f step h 0 s (Nat.zero_le _)
  simpa using this
end

/-- the fields of the struct as the parser sees them (`z`: how `%v` prints each field's zero value) -/
def raws (env : GoGerrorGen.Env τ σ) (z : GoGerrorGen.Var × Str → Str) (strukt : List (GoGerrorGen.Var × Str)) :
    List RawField := strukt.map (fun p => rawOf env p.1 p.2 (z p))

def tagged (r : RawField) : Bool := r.tagName.isSome
def isBad (r : RawField) : Bool := match parseRaw r with | .bad => true | _ => false
def isGErr (p : GoGerrorGen.Var × Str) : Bool := p.1.Embedded && p.1.Name == Go.str "GError"

abbrev LoopSt := List GoGerrorGen.Field × Bool
abbrev LoopRet := Option GoGerrorGen.ErrorDesc × Option GoGerrorGen.GoError

/-- one iteration of the field loop on (fields, embedsGError) -/
def descStep (env : GoGerrorGen.Env τ σ) (z : GoGerrorGen.Var × Str → Str) (s : LoopSt) (p : GoGerrorGen.Var × Str) :
    Sum LoopSt (LoopRet × LoopSt) :=
  match parseRaw (rawOf env p.1 p.2 (z p)) with
  | .bad => .inr ((none, some badOptions), s)
  | .skip => .inl (s.1, s.2 || isGErr p)
  | .field f => .inl (s.1 ++ [absF f], s.2 || isGErr p)

theorem descStep_at (env : GoGerrorGen.Env τ σ) (z : GoGerrorGen.Var × Str → Str) (s : LoopSt) (p : GoGerrorGen.Var × Str) :
    descStep env z s p = match parseRaw (rawOf env p.1 p.2 (z p)) with
      | .bad => .inr ((none, some badOptions), s)
      | .skip => .inl (s.1, s.2 || isGErr p)
      | .field f => .inl (s.1 ++ [absF f], s.2 || isGErr p) := rfl

theorem parseRaw_skip_iff (r : RawField) : parseRaw r = .skip ↔ tagged r = false := by
  unfold parseRaw tagged
  cases r.tagName with
  | none => simp
  | some n => simp; split <;> simp

theorem parseRaw_field (r : RawField) (f : FieldDef) (h : parseRaw r = .field f) :
    tagged r = true ∧ f = createField r := by
  revert h
  unfold parseRaw tagged
  cases r.tagName with
  | none => simp
  | some n => simp; split <;> simp; intro h; exact h.symm

theorem descStep_fold (env : GoGerrorGen.Env τ σ) (z : GoGerrorGen.Var × Str → Str) :
    ∀ (xs : List (GoGerrorGen.Var × Str)) (s : LoopSt), ∃ s',
    GoLoop.searchFold2 (descStep env z) s xs =
      if (raws env z xs).any isBad then (some (none, some badOptions), s')
      else (none, (s.1 ++ (parseFields ((raws env z xs).filter tagged)).map absF, s.2 || xs.any isGErr))
  | [], s => ⟨s, by simp [GoLoop.searchFold2, raws, parseFields]⟩
  | p :: xs, s => by
    have ih := descStep_fold env z xs
    rw [GoLoop.searchFold2, descStep_at]
    simp only [raws, List.map_cons, List.any_cons, List.filter_cons]
    cases hp : parseRaw (rawOf env p.1 p.2 (z p)) with
    | bad =>
      have hbad : isBad (rawOf env p.1 p.2 (z p)) = true := by unfold isBad; rw [hp]
      exact ⟨s, by simp [hbad]⟩
    | skip =>
      have := (parseRaw_skip_iff _).mp hp
      obtain ⟨s', h⟩ := ih (s.1, s.2 || isGErr p)
      refine ⟨s', ?_⟩
      have hbad : isBad (rawOf env p.1 p.2 (z p)) = false := by unfold isBad; rw [hp]
      simp only [hp, this, hbad, Bool.false_or]
      rw [h]
      by_cases hany : (raws env z xs).any isBad = true
      · simp only [raws] at hany; simp [raws, hany]
      · simp only [raws] at hany; simp [raws, hany, Bool.or_assoc]
    | field f =>
      obtain ⟨h1, h2⟩ := parseRaw_field _ f hp
      obtain ⟨s', h⟩ := ih (s.1 ++ [absF f], s.2 || isGErr p)
      refine ⟨s', ?_⟩
      have hbad : isBad (rawOf env p.1 p.2 (z p)) = false := by unfold isBad; rw [hp]
      simp only [hp, h1, hbad, Bool.false_or]
      rw [h]
      by_cases hany : (raws env z xs).any isBad = true
      · simp only [raws] at hany; simp [raws, hany]
      · simp only [raws] at hany; simp [raws, hany, Bool.or_assoc, parseFields, h2]

/-- **The translated field loop of `createErrorDesc`** (with the sort and the result after it) is the
model's `parseFields` on the tagged fields, sorted by name — or one of the generator's two refusals -/
theorem go_createErrorDesc_eq (env : GoGerrorGen.Env τ σ) (hs : SortOK env) (z : GoGerrorGen.Var × Str → Str)
    (strukt : List (GoGerrorGen.Var × Str)) (tn : Str)
    (hd : ((parseFields ((raws env z strukt).filter tagged)).map (·.name)).Nodup) :
    GoGerrorGen.createErrorDesc env strukt tn = pure (
      if (raws env z strukt).any isBad then (none, some badOptions)
      else if !strukt.any isGErr then (none, some ⟨tn ++ Go.str " does not embed GError"⟩)
      else (some ⟨tn, (sortFields (parseFields ((raws env z strukt).filter tagged))).map absF⟩, none)) := by
  unfold GoGerrorGen.createErrorDesc
  simp only [bind_pure_comp, pure_bind]
  obtain ⟨s', hfold⟩ := descStep_fold env z strukt ([], false)
  rw [forIn_idx_searchFold2_zero strukt _ (descStep env z), pure_bind, hfold]
  rotate_left
  · intro i hi s
    simp only [Go.listGet, hi, if_true, pure_bind, List.getD_eq_getElem?_getD, List.getElem?_eq_getElem, Option.getD_some,
      go_createField_eq env _ _ (z strukt[i])]
    unfold descStep isGErr
    cases parseRaw (rawOf env strukt[i].1 strukt[i].2 (z strukt[i])) <;>
      by_cases hg : (strukt[i].1.Embedded && strukt[i].1.Name == Go.str "GError") = true <;>
      simp [parsedResult, hg]
  by_cases hb : (raws env z strukt).any isBad = true
  · simp [hb]
  · simp only [hb, Bool.false_eq_true, if_false, List.nil_append, Bool.false_or]
    by_cases hg : strukt.any isGErr = true
    · simp only [hg, Bool.not_true, Bool.false_eq_true, if_false]
      rw [go_sort_eq env hs _ hd]
    · simp [hg]

/-! ## `(*GError).Error()` -/

/-- the five fields C15/C09 talk about -/
def projE (g : GoGerrorGen.GError (List Str)) : E :=
  { name := g.Name, msg := g.Message, src := g.Source, dtag := g.detailTag, stack := g.stack }

/-- **The translated `(*GError).Error()` is the model's `errorFull`**: name, detail tag, source — each
only when non-empty, each followed by `", "` — the message, and the stack text when there is a stack;
for every error value and every rendering of the stack. -/
theorem go_error_eq (env : GoGerrorGen.Env τ (List Str)) (hl : ∀ s, env.stackLen s = s.length)
    (g : GoGerrorGen.GError (List Str)) :
    GoGerrorGen.GError.Error env g = pure (errorFull (projE g) (env.stackString g.stack)) := by
  unfold GoGerrorGen.GError.Error errorFull errorHead errorTail errorStackPart projE
  simp only [hl]
  by_cases h1 : g.Name = [] <;> by_cases h2 : g.detailTag = [] <;> by_cases h3 : g.Source = [] <;>
    by_cases h4 : g.stack.length > 0 <;>
    simp [h1, h2, h3, h4, Go.str, List.append_assoc]

end C09Tie

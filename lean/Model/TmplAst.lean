/-!
# A small fragment of Go's text/template as data, and what executing it means (core Lean only)

`harness/cmd/go2lean -spec gsorttmpl` reads a template of /repo with text/template/parse and writes
the parse tree of the parts a property depends on as a term of `TmplAst.Node`
(`lean/Generated/GSortTmpl.lean`).  The fragment:

* `text s`            literal text, as the parser leaves it after the `{{-` / `-}}` trimming;
* `field f`           `{{.f}}` - the field or niladic method `f` of dot, printed;
* `cond f thn els`    `{{if .f}} thn {{else}} els {{end}}`;
* `call t f`          `{{template "t" .f}}` - execute template `t` with dot = `.f`.

What a field of dot IS is not the template's business: `Data` supplies it (the property files
bind the names to the TRANSLATED Go methods of the same name).  `none` stands for an execution
error (unknown field or template, a method that panics, nil dereference) or for running out of
`fuel` - the number of nested `template` calls allowed, there because a template may call itself.
-/
namespace TmplAst

inductive Node where
  | text (s : String)
  | field (f : String)
  | cond (f : String) (thn els : List Node)
  | call (tmpl : String) (f : String)
  deriving Repr

/-- the values a template is executed on -/
structure Data (D : Type) where
  /-- `{{.f}}`: what gets printed -/
  print : D → String → Option String
  /-- `{{if .f}}`: the truth value -/
  truth : D → String → Option Bool
  /-- `.f` passed on as the dot of another template -/
  sub : D → String → Option D

variable {D : Type}

mutual
/-- one node, with `call t d` standing for "execute template `t` on `d`" -/
def renderNode (I : Data D) (call : String → D → Option String) (d : D) : Node → Option String
  | .text s => some s
  | .field f => I.print d f
  | .cond f thn els =>
    match I.truth d f with
    | none => none
    | some true => renderList I call d thn
    | some false => renderList I call d els
  | .call t f =>
    match I.sub d f with
    | none => none
    | some d' => call t d'
/-- a list of nodes: the outputs one after the other -/
def renderList (I : Data D) (call : String → D → Option String) (d : D) : List Node → Option String
  | [] => some ""
  | n :: ns =>
    match renderNode I call d n, renderList I call d ns with
    | some a, some b => some (a ++ b)
    | _, _ => none
end

/-- execute the template named `t` -/
def renderTmpl (defs : String → Option (List Node)) (I : Data D) : Nat → String → D → Option String
  | 0, _, _ => none
  | fuel + 1, t, d =>
    match defs t with
    | none => none
    | some body => renderList I (renderTmpl defs I fuel) d body

/-- execute a piece of a template (a list of nodes) -/
def render (defs : String → Option (List Node)) (I : Data D) (fuel : Nat) (d : D) (ns : List Node) : Option String :=
  renderList I (renderTmpl defs I fuel) d ns

end TmplAst

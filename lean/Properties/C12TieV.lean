import Properties.C12Tie
/-!
# C12, tie A by translation: `validateParsableTraits` as translated on this run = the model's `parsableUnique`

The Go function walks the parsable traits and their instances with two nested index loops, remembers in a
`map[string]string` which enum value every constant TEXT belongs to, returns an error when a text turns up under
another value, and marks (through the range copy, i.e. in the caller's slice) an instance whose text was already
seen under the SAME value.  `go_validateParsable_closed` is its closed form for every input (`vpDescs`: no panic,
which descriptors come back with which marks, whether the error is returned); `go_validateParsable_eq` ties it to
the model: on descriptors related to the model's (`DescRel`), the error is returned exactly when the model's
`parsableUnique` is false.
-/
set_option linter.unusedSimpArgs false
set_option linter.unusedVariables false
namespace C12Tie
open Generated.GoGenumValues Generated.GoGenumGen Genum GoLoop

abbrev SMap := Go.KV String String
/-- `parsableTraitTypes`: the types under which a constant text already is a key -/
abbrev TMap := Go.KV String (List GType)

/-- `types.Identical(types.Default(seen), types.Default(ty))` -/
def sameDefault (ty : GType) (s : GType) : Bool := s.defaultTypeId == ty.defaultTypeId
/-- `parseKeys[key]` (nil when absent) -/
def tmGet (tm : TMap) (k : String) : List GType := (Go.kvGet tm k).getD default
def markOf (x : GTraitInstance) : GTraitInstance := { x with repeatsParseKey := true }
/-- the key of `parseKeys`: enum value and exact constant value -/
def keyOf (x : GTraitInstance) : String := x.OwningValue.Name ++ "\x00" ++ x.keyValue

/-- second job, one instance: nothing for an instance without a constant of its own (`keyType == nil`); else the
instance is marked when its (enum value, constant value) already is a key under an identical default type, and
its type is recorded -/
def vpMark (tm : TMap) (x : GTraitInstance) : TMap × GTraitInstance :=
  if x.keyType.isNil then (tm, x)
  else (Go.kvSet tm (keyOf x) (tmGet tm (keyOf x) ++ [x.keyType]),
    if (tmGet tm (keyOf x)).any (sameDefault x.keyType) then markOf x else x)

/-- one instance: `none` = the error return (its text stands under another enum value) -/
def vpStep (m : SMap) (tm : TMap) (x : GTraitInstance) : Option (SMap × TMap × GTraitInstance) :=
  match Go.kvGet m x.value with
  | some o =>
    if o != x.OwningValue.Name then none
    else some (Go.kvSet m x.value x.OwningValue.Name, (vpMark tm x).1, (vpMark tm x).2)
  | none => some (Go.kvSet m x.value x.OwningValue.Name, (vpMark tm x).1, (vpMark tm x).2)

/-- the instances of one trait: (maps, instances as they are left behind, no error) -/
def vpInsts (m : SMap) (tm : TMap) : List GTraitInstance → SMap × TMap × List GTraitInstance × Bool
  | [] => (m, tm, [], true)
  | x :: xs =>
    match vpStep m tm x with
    | none => (m, tm, x :: xs, false)
    | some (m', tm', x') => let r := vpInsts m' tm' xs; (r.1, r.2.1, x' :: r.2.2.1, r.2.2.2)

/-- the traits: (descriptors as they are left behind, maps, no error) -/
def vpDescs (m : SMap) (tm : TMap) : List GTraitDesc → List GTraitDesc × SMap × TMap × Bool
  | [] => ([], m, tm, true)
  | t :: ts =>
    if t.Parsable then
      let r := vpInsts m tm t.Traits
      if r.2.2.2 then let q := vpDescs r.1 r.2.1 ts; ({ t with Traits := r.2.2.1 } :: q.1, q.2.1, q.2.2.1, q.2.2.2)
      else ({ t with Traits := r.2.2.1 } :: ts, r.1, r.2.1, false)
    else let q := vpDescs m tm ts; (t :: q.1, q.2.1, q.2.2.1, q.2.2.2)

abbrev MarkSt := List GTraitDesc × GTraitDesc
abbrev InnerSt := Option (List GTraitDesc × Option String) × List GTraitDesc × SMap × TMap × GTraitDesc
abbrev OuterSt := Option (List GTraitDesc × Option String) × List GTraitDesc × SMap × TMap

theorem set_self {α : Type} (l : List α) (k : Nat) (x : α) (h : l[k]? = some x) : l.set k x = l := by
  induction l generalizing k with
  | nil => rfl
  | cons a l ih =>
    cases k with
    | zero => simp at h; simp [h]
    | succ k => simp at h; simp [ih k h]

/-- the trait with its `i`-th instance marked -/
def mkT (tr : GTraitDesc) (i : Nat) : GTraitDesc :=
  { tr with Traits := tr.Traits.set i (markOf (tr.Traits.getD i default)) }

theorem mkT_idem (tr : GTraitDesc) (i : Nat) : mkT (mkT tr i) i = mkT tr i := by
  unfold mkT
  simp only [List.set_set]
  by_cases hi : i < tr.Traits.length
  · simp [List.getD_eq_getElem?_getD, hi, markOf]
  · simp [List.getD_eq_getElem?_getD, hi, markOf, List.set_eq_of_length_le (Nat.le_of_not_lt hi)]

/-- the loop over the types already recorded for a key: marks the instance when one satisfies `c` -/
theorem vp_mark (body : GType → MarkSt → Go.M (ForInStep MarkSt)) (k3 i : Nat) (c : GType → Bool)
    (h : ∀ (seen : GType) (traits : List GTraitDesc) (tr : GTraitDesc), i < tr.Traits.length → k3 < traits.length →
      body seen (traits, tr) = pure (ForInStep.yield
        (if c seen then (traits.set k3 (mkT tr i), mkT tr i) else (traits, tr))))
    (L : List GType) : ∀ (traits : List GTraitDesc) (tr : GTraitDesc), i < tr.Traits.length → k3 < traits.length →
      forIn L ((traits, tr) : MarkSt) body = pure
        (if L.any c then (traits.set k3 (mkT tr i), mkT tr i) else (traits, tr)) := by
  induction L with
  | nil => intro traits tr _ _; simp
  | cons s L ih =>
    intro traits tr hi hk
    rw [List.forIn_cons, h s traits tr hi hk]
    simp only [pure_bind, List.any_cons]
    by_cases hc : c s = true
    · have hi' : i < (mkT tr i).Traits.length := by simp [mkT, hi]
      have hk' : k3 < (traits.set k3 (mkT tr i)).length := by simp [hk]
      rw [if_pos hc, ih _ _ hi' hk', mkT_idem, List.set_set]
      simp [hc]
    · rw [if_neg hc, ih _ _ hi hk]
      simp [hc]

theorem vp_inner (body : Nat → InnerSt → Go.M (ForInStep InnerSt)) (msg : String) (k3 : Nat)
    (h : ∀ (i : Nat) (traits : List GTraitDesc) (m : SMap) (tm : TMap) (tr : GTraitDesc) (hi : i < tr.Traits.length),
      k3 < traits.length → traits[k3]? = some tr → body i (none, traits, m, tm, tr) = pure (match vpStep m tm tr.Traits[i] with
        | none => ForInStep.done (some (traits, some msg), traits, m, tm, tr)
        | some (m', tm', x') => ForInStep.yield (none, traits.set k3 { tr with Traits := tr.Traits.set i x' }, m', tm',
            { tr with Traits := tr.Traits.set i x' })))
    (suf : List GTraitInstance) :
    ∀ (pre : List GTraitInstance) (m : SMap) (tm : TMap) (traits : List GTraitDesc) (tr : GTraitDesc),
      k3 < traits.length → tr.Traits = pre ++ suf → traits[k3]? = some tr →
      forIn (List.range' pre.length suf.length) ((none, traits, m, tm, tr) : InnerSt) body = pure (
        let r := vpInsts m tm suf
        let tr' : GTraitDesc := { tr with Traits := pre ++ r.2.2.1 }
        ((if r.2.2.2 then none else some (traits.set k3 tr', some msg)), traits.set k3 tr', r.1, r.2.1, tr')) := by
  induction suf with
  | nil =>
    intro pre m tm traits tr hk htr hinv
    have e1 : ({ tr with Traits := pre ++ [] } : GTraitDesc) = tr := by
      cases tr; simp at htr; simp [htr]
    simp only [List.length_nil, List.range'_zero, List.forIn_nil, vpInsts, e1, set_self _ _ _ hinv]
    rfl
  | cons x suf ih =>
    intro pre m tm traits tr hk htr hinv
    have hi : pre.length < tr.Traits.length := by rw [htr]; simp
    have hx : tr.Traits[pre.length] = x := by simp [htr]
    rw [List.length_cons, List.range'_succ, List.forIn_cons, h pre.length traits m tm tr hi hk hinv, hx]
    obtain hs | ⟨p, hs⟩ : vpStep m tm x = none ∨ ∃ p, vpStep m tm x = some p := by
      cases vpStep m tm x <;> simp
    · have hv : vpInsts m tm (x :: suf) = (m, tm, x :: suf, false) := by simp [vpInsts, hs]
      simp only [hs, hv]
      have e1 : ({ tr with Traits := pre ++ x :: suf } : GTraitDesc) = tr := by
        cases tr; simp at htr; simp [htr]
      simp only [pure_bind, e1, set_self _ _ _ hinv]
      rfl
    · obtain ⟨m', tm', x'⟩ := p
      have hv : vpInsts m tm (x :: suf) = ((vpInsts m' tm' suf).1, (vpInsts m' tm' suf).2.1,
          x' :: (vpInsts m' tm' suf).2.2.1, (vpInsts m' tm' suf).2.2.2) := by
        simp [vpInsts, hs]
      simp only [hs, hv, pure_bind]
      have hset : tr.Traits.set pre.length x' = (pre ++ [x']) ++ suf := by
        rw [htr]; simp [List.set_append]
      have := ih (pre ++ [x']) m' tm' (traits.set k3 { tr with Traits := tr.Traits.set pre.length x' })
        { tr with Traits := tr.Traits.set pre.length x' } (by simpa using hk) hset (by simp [hk])
      simp only [List.length_append, List.length_singleton] at this
      rw [this]
      simp [List.set_set, List.append_assoc]

theorem vp_outer (body : Nat → OuterSt → Go.M (ForInStep OuterSt)) (msg : String)
    (h : ∀ (k : Nat) (traits : List GTraitDesc) (m : SMap) (tm : TMap) (hk : k < traits.length),
      body k (none, traits, m, tm) = pure (
        if traits[k].Parsable then
          (if (vpInsts m tm traits[k].Traits).2.2.2 then
            ForInStep.yield (none, traits.set k { traits[k] with Traits := (vpInsts m tm traits[k].Traits).2.2.1 },
              (vpInsts m tm traits[k].Traits).1, (vpInsts m tm traits[k].Traits).2.1)
          else ForInStep.done (some (traits.set k { traits[k] with Traits := (vpInsts m tm traits[k].Traits).2.2.1 }, some msg),
              traits.set k { traits[k] with Traits := (vpInsts m tm traits[k].Traits).2.2.1 },
              (vpInsts m tm traits[k].Traits).1, (vpInsts m tm traits[k].Traits).2.1))
        else ForInStep.yield (none, traits, m, tm)))
    (suf : List GTraitDesc) :
    ∀ (pre : List GTraitDesc) (m : SMap) (tm : TMap),
      forIn (List.range' pre.length suf.length) ((none, pre ++ suf, m, tm) : OuterSt) body = pure (
        ((if (vpDescs m tm suf).2.2.2 then none else some (pre ++ (vpDescs m tm suf).1, some msg)),
          pre ++ (vpDescs m tm suf).1, (vpDescs m tm suf).2.1, (vpDescs m tm suf).2.2.1)) := by
  induction suf with
  | nil => intro pre m tm; simp [vpDescs]
  | cons t suf ih =>
    intro pre m tm
    have hk : pre.length < (pre ++ t :: suf).length := by simp
    have ht : (pre ++ t :: suf)[pre.length] = t := by simp
    rw [List.length_cons, List.range'_succ, List.forIn_cons, h pre.length (pre ++ t :: suf) m tm hk]
    simp only [ht]
    by_cases hp : t.Parsable = true
    · by_cases hok : (vpInsts m tm t.Traits).2.2.2 = true
      · have hv : vpDescs m tm (t :: suf) = ({ t with Traits := (vpInsts m tm t.Traits).2.2.1 } ::
              (vpDescs (vpInsts m tm t.Traits).1 (vpInsts m tm t.Traits).2.1 suf).1,
            (vpDescs (vpInsts m tm t.Traits).1 (vpInsts m tm t.Traits).2.1 suf).2.1,
            (vpDescs (vpInsts m tm t.Traits).1 (vpInsts m tm t.Traits).2.1 suf).2.2.1,
            (vpDescs (vpInsts m tm t.Traits).1 (vpInsts m tm t.Traits).2.1 suf).2.2.2) := by
          simp [vpDescs, hp, hok]
        have hset : (pre ++ t :: suf).set pre.length { t with Traits := (vpInsts m tm t.Traits).2.2.1 }
            = (pre ++ [{ t with Traits := (vpInsts m tm t.Traits).2.2.1 }]) ++ suf := by simp [List.set_append]
        have := ih (pre ++ [{ t with Traits := (vpInsts m tm t.Traits).2.2.1 }]) (vpInsts m tm t.Traits).1
          (vpInsts m tm t.Traits).2.1
        simp only [List.length_append, List.length_singleton] at this
        rw [if_pos hp, if_pos hok]
        simp only [pure_bind, hset]
        rw [this]
        simp only [hv, List.append_assoc, List.singleton_append]
      · have hv : vpDescs m tm (t :: suf) = ({ t with Traits := (vpInsts m tm t.Traits).2.2.1 } :: suf,
            (vpInsts m tm t.Traits).1, (vpInsts m tm t.Traits).2.1, false) := by
          simp [vpDescs, hp, hok]
        have hset : (pre ++ t :: suf).set pre.length { t with Traits := (vpInsts m tm t.Traits).2.2.1 }
            = pre ++ { t with Traits := (vpInsts m tm t.Traits).2.2.1 } :: suf := by simp [List.set_append]
        rw [if_pos hp, if_neg hok]
        simp only [pure_bind, hset, hv, Bool.false_eq_true, if_false]
    · have hv : vpDescs m tm (t :: suf) = (t :: (vpDescs m tm suf).1, (vpDescs m tm suf).2.1, (vpDescs m tm suf).2.2.1,
          (vpDescs m tm suf).2.2.2) := by
        simp [vpDescs, hp]
      have := ih (pre ++ [t]) m tm
      simp only [List.length_append, List.length_singleton] at this
      rw [if_neg hp]
      simp only [pure_bind]
      rw [show pre ++ t :: suf = pre ++ [t] ++ suf by simp, this]
      simp only [hv, List.append_assoc, List.singleton_append]

theorem vp_outer0 (body : Nat → OuterSt → Go.M (ForInStep OuterSt)) (msg : String) (gs : List GTraitDesc) (m : SMap) (tm : TMap)
    (h : ∀ (k : Nat) (traits : List GTraitDesc) (m : SMap) (tm : TMap) (hk : k < traits.length),
      body k (none, traits, m, tm) = pure (
        if traits[k].Parsable then
          (if (vpInsts m tm traits[k].Traits).2.2.2 then
            ForInStep.yield (none, traits.set k { traits[k] with Traits := (vpInsts m tm traits[k].Traits).2.2.1 },
              (vpInsts m tm traits[k].Traits).1, (vpInsts m tm traits[k].Traits).2.1)
          else ForInStep.done (some (traits.set k { traits[k] with Traits := (vpInsts m tm traits[k].Traits).2.2.1 }, some msg),
              traits.set k { traits[k] with Traits := (vpInsts m tm traits[k].Traits).2.2.1 },
              (vpInsts m tm traits[k].Traits).1, (vpInsts m tm traits[k].Traits).2.1))
        else ForInStep.yield (none, traits, m, tm))) :
    forIn (List.range' 0 gs.length) ((none, gs, m, tm) : OuterSt) body = pure (
      ((if (vpDescs m tm gs).2.2.2 then none else some ((vpDescs m tm gs).1, some msg)), (vpDescs m tm gs).1,
        (vpDescs m tm gs).2.1, (vpDescs m tm gs).2.2.1)) := by
  have := vp_outer body msg h gs [] m tm
  simpa using this

theorem vp_inner0 (body : Nat → InnerSt → Go.M (ForInStep InnerSt)) (msg : String) (k3 : Nat)
    (m : SMap) (tm : TMap) (traits : List GTraitDesc) (tr : GTraitDesc) (hk : k3 < traits.length) (hinv : traits[k3]? = some tr)
    (h : ∀ (i : Nat) (traits : List GTraitDesc) (m : SMap) (tm : TMap) (tr : GTraitDesc) (hi : i < tr.Traits.length),
      k3 < traits.length → traits[k3]? = some tr → body i (none, traits, m, tm, tr) = pure (match vpStep m tm tr.Traits[i] with
        | none => ForInStep.done (some (traits, some msg), traits, m, tm, tr)
        | some (m', tm', x') => ForInStep.yield (none, traits.set k3 { tr with Traits := tr.Traits.set i x' }, m', tm',
            { tr with Traits := tr.Traits.set i x' }))) :
    forIn (List.range' 0 tr.Traits.length) ((none, traits, m, tm, tr) : InnerSt) body = pure (
      ((if (vpInsts m tm tr.Traits).2.2.2 then none
          else some (traits.set k3 { tr with Traits := (vpInsts m tm tr.Traits).2.2.1 }, some msg)),
        traits.set k3 { tr with Traits := (vpInsts m tm tr.Traits).2.2.1 }, (vpInsts m tm tr.Traits).1,
        (vpInsts m tm tr.Traits).2.1, { tr with Traits := (vpInsts m tm tr.Traits).2.2.1 })) := by
  have := vp_inner body msg k3 h tr.Traits [] m tm traits tr hk (by simp) hinv
  simpa using this

/-- `validateParsableTraits`, for every list of descriptors: no panic; the descriptors come back as `vpDescs`
leaves them (marks on repeated Parse keys); the error is returned exactly when `vpDescs` says so -/
theorem go_validateParsable_closed (e : String) (gs : List GTraitDesc) :
    validateParsableTraits e gs = pure ((vpDescs [] [] gs).1,
      if (vpDescs [] [] gs).2.2.2 then none else some validateParsableTraits_err1) := by
  unfold validateParsableTraits
  simp only []
  rw [vp_outer0 _ validateParsableTraits_err1 gs [] [] ?h]
  · by_cases hok : (vpDescs [] [] gs).2.2.2 = true <;> simp [hok]
  case h =>
    intro k traits m tm hk
    simp only [listGet_lt _ _ hk, pure_bind]
    by_cases hp : traits[k].Parsable = true
    · rw [if_pos hp, if_pos hp]
      rw [vp_inner0 _ validateParsableTraits_err1 k m tm traits traits[k] hk (by simp [hk]) ?h2]
      · by_cases hok : (vpInsts m tm traits[k].Traits).2.2.2 = true <;> simp [hok]
      case h2 =>
        intro i traits' m' tm' tr hi hk' hinv'
        simp only [listGet_lt _ _ hi, pure_bind, vpStep]
        have e1 : ({ tr with Traits := tr.Traits } : GTraitDesc) = tr := rfl
        have e2 : tr.Traits.set i tr.Traits[i] = tr.Traits := by simp
        have hmk : mkT tr i = { tr with Traits := tr.Traits.set i (markOf tr.Traits[i]) } := by
          simp [mkT, List.getD_eq_getElem?_getD, hi]
        -- the second job, the same text in both branches of the `if ok`
        have hmark : ∀ (M : SMap),
            (if tr.Traits[i].keyType.isNil = true then
              (pure (ForInStep.yield (none, traits', M, tm', tr)) : Go.M (ForInStep InnerSt))
            else do
              let s1 ← forIn ((Go.kvGet tm' (tr.Traits[i].OwningValue.Name ++ "\x00" ++ tr.Traits[i].keyValue)).getD default)
                ((traits', tr) : MarkSt) (fun seen (s : MarkSt) =>
                  if (seen.defaultTypeId == tr.Traits[i].keyType.defaultTypeId) = true then do
                    let a ← Go.listGet s.2.Traits i
                    let b ← Go.listSet s.2.Traits i { a with repeatsParseKey := true }
                    let traits ← Go.listSet s.1 k { s.2 with Traits := b }
                    pure (ForInStep.yield (traits, { s.2 with Traits := b }))
                  else pure (ForInStep.yield (s.1, s.2)))
              pure (ForInStep.yield (none, s1.1, M,
                Go.kvSet tm' (tr.Traits[i].OwningValue.Name ++ "\x00" ++ tr.Traits[i].keyValue)
                  ((Go.kvGet tm' (tr.Traits[i].OwningValue.Name ++ "\x00" ++ tr.Traits[i].keyValue)).getD default ++ [tr.Traits[i].keyType]),
                s1.2)))
            = pure (ForInStep.yield (none, traits'.set k { tr with Traits := tr.Traits.set i (vpMark tm' tr.Traits[i]).2 }, M,
                (vpMark tm' tr.Traits[i]).1, { tr with Traits := tr.Traits.set i (vpMark tm' tr.Traits[i]).2 })) := by
          intro M
          unfold vpMark
          by_cases hnil : tr.Traits[i].keyType.isNil = true
          · simp [hnil, e1, e2, set_self _ _ _ hinv']
          · rw [if_neg hnil, if_neg hnil]
            rw [vp_mark _ k i (sameDefault tr.Traits[i].keyType) ?h3 _ traits' tr hi hk']
            · by_cases hany : (tmGet tm' (keyOf tr.Traits[i])).any (sameDefault tr.Traits[i].keyType) = true
              · have hany' := hany
                simp only [tmGet, keyOf] at hany'
                simp [hany, hany', hmk, tmGet, keyOf, pure_bind]
              · have hany' := hany
                simp only [tmGet, keyOf] at hany'
                simp [hany, hany', tmGet, keyOf, pure_bind, e1, e2, set_self _ _ _ hinv']
            case h3 =>
              intro seen traits2 tr2 hi2 hk2
              have hmk2 : mkT tr2 i = { tr2 with Traits := tr2.Traits.set i (markOf tr2.Traits[i]) } := by
                simp [mkT, List.getD_eq_getElem?_getD, hi2]
              by_cases hc : sameDefault tr.Traits[i].keyType seen = true
              · have hc' : (seen.defaultTypeId == tr.Traits[i].keyType.defaultTypeId) = true := hc
                simp [hc, hc', listGet_lt _ _ hi2, Go.listSet, hi2, hk2, hmk2, markOf]
              · have hc' : (seen.defaultTypeId == tr.Traits[i].keyType.defaultTypeId) = false := by
                  simpa [sameDefault] using hc
                simp [hc, hc']
        cases hg : Go.kvGet m' tr.Traits[i].value with
        | none =>
          simp only [Option.isSome_none, Bool.false_eq_true, if_false]
          exact hmark _
        | some o =>
          by_cases hne : o = tr.Traits[i].OwningValue.Name
          · simp only [Option.isSome_some, if_true, Option.getD_some, hne, bne_self_eq_false, Bool.false_eq_true, if_false]
            exact hmark _
          · simp [hne]
    · rw [if_neg hp, if_neg hp]

/-! ## the closed form and the model's `parsableUnique` -/

/-- the (text, owner name) pairs the function walks, in order -/
def pairsOfInsts (xs : List GTraitInstance) : List (String × String) := xs.map (fun x => (x.value, x.OwningValue.Name))
def pairsOf (gs : List GTraitDesc) : List (String × String) :=
  (gs.filter (·.Parsable)).flatMap (fun g => pairsOfInsts g.Traits)

/-- the walk on the pairs alone -/
def scan (m : SMap) : List (String × String) → SMap × Bool
  | [] => (m, true)
  | p :: r =>
    match Go.kvGet m p.1 with
    | some o => if o != p.2 then (m, false) else scan (Go.kvSet m p.1 p.2) r
    | none => scan (Go.kvSet m p.1 p.2) r

theorem scan_append (m : SMap) (a b : List (String × String)) :
    scan m (a ++ b) = if (scan m a).2 then scan (scan m a).1 b else ((scan m a).1, false) := by
  induction a generalizing m with
  | nil => simp [scan]
  | cons p a ih =>
    simp only [List.cons_append, scan]
    rcases Option.eq_none_or_eq_some (Go.kvGet m p.1) with hg | ⟨o, hg⟩
    · simp only [hg, ih]
    · by_cases hne : (o != p.2) = true
      · simp [hg, hne]
      · simp only [hg, hne, if_false, ih, Bool.false_eq_true]

theorem vpInsts_scan (m : SMap) (tm : TMap) (xs : List GTraitInstance) :
    (vpInsts m tm xs).1 = (scan m (pairsOfInsts xs)).1 ∧ (vpInsts m tm xs).2.2.2 = (scan m (pairsOfInsts xs)).2 := by
  induction xs generalizing m tm with
  | nil => simp [vpInsts, scan, pairsOfInsts]
  | cons x xs ih =>
    simp only [vpInsts, pairsOfInsts, List.map_cons, scan, vpStep]
    cases hg : Go.kvGet m x.value with
    | none => simpa [pairsOfInsts] using ih _ _
    | some o =>
      by_cases hne : (o != x.OwningValue.Name) = true
      · simp [hne]
      · simpa [hne, pairsOfInsts] using ih _ _

theorem vpDescs_scan (m : SMap) (tm : TMap) (gs : List GTraitDesc) :
    (vpDescs m tm gs).2.1 = (scan m (pairsOf gs)).1 ∧ (vpDescs m tm gs).2.2.2 = (scan m (pairsOf gs)).2 := by
  induction gs generalizing m tm with
  | nil => simp [vpDescs, scan, pairsOf]
  | cons t ts ih =>
    by_cases hp : t.Parsable = true
    · have hpo : pairsOf (t :: ts) = pairsOfInsts t.Traits ++ pairsOf ts := by simp [pairsOf, hp]
      rw [hpo, scan_append]
      obtain ⟨h1, h2⟩ := vpInsts_scan m tm t.Traits
      by_cases hok : (vpInsts m tm t.Traits).2.2.2 = true
      · have := ih (vpInsts m tm t.Traits).1 (vpInsts m tm t.Traits).2.1
        simp only [vpDescs, hp, hok, if_true, ← h2, ← h1]
        exact this
      · simp only [vpDescs, hp, hok, if_true, ← h2, ← h1]
        simp
    · have hpo : pairsOf (t :: ts) = pairsOf ts := by simp [pairsOf, hp]
      rw [hpo]
      simpa [vpDescs, hp] using ih m tm

theorem kvGet_kvSet (m : SMap) (k v k' : String) :
    Go.kvGet (Go.kvSet m k v) k' = if k = k' then some v else Go.kvGet m k' := by
  induction m with
  | nil => simp [Go.kvSet, Go.kvGet]
  | cons p m ih =>
    obtain ⟨a, b⟩ := p
    by_cases hak : a = k
    · subst hak
      by_cases hkk : a = k' <;> simp [Go.kvSet, Go.kvGet, hkk]
    · by_cases hkk : k = k'
      · subst hkk
        simp [Go.kvSet, Go.kvGet, hak, ih]
      · by_cases hak' : a = k'
        · subst hak'
          simp [Go.kvSet, Go.kvGet, hak, hkk]
        · simp [Go.kvSet, Go.kvGet, hak, hkk, hak', ih]

/-- no text under two different owners -/
def Consistent (ps : List (String × String)) : Prop := ∀ p ∈ ps, ∀ q ∈ ps, p.1 = q.1 → p.2 = q.2

instance (ps : List (String × String)) : Decidable (Consistent ps) := by unfold Consistent; exact inferInstance

theorem scan_ok_iff (m : SMap) (ps : List (String × String)) :
    (scan m ps).2 = true ↔ (∀ p ∈ ps, ∀ o, Go.kvGet m p.1 = some o → o = p.2) ∧ Consistent ps := by
  induction ps generalizing m with
  | nil => simp [scan, Consistent]
  | cons p ps ih =>
    have key : (scan (Go.kvSet m p.1 p.2) ps).2 = true ↔
        (∀ q ∈ ps, q.1 = p.1 → q.2 = p.2) ∧ (∀ q ∈ ps, ∀ o, Go.kvGet m q.1 = some o → q.1 ≠ p.1 → o = q.2) ∧ Consistent ps := by
      rw [ih]
      simp only [kvGet_kvSet]
      constructor
      · rintro ⟨h1, h2⟩
        refine ⟨fun q hq he => ?_, fun q hq o ho hne => ?_, h2⟩
        · exact (h1 q hq p.2 (by simp [he])).symm
        · exact h1 q hq o (by simp [Ne.symm hne, ho])
      · rintro ⟨h1, h2, h3⟩
        refine ⟨fun q hq o ho => ?_, h3⟩
        by_cases he : p.1 = q.1
        · simp [he] at ho; rw [← ho]; exact (h1 q hq he.symm).symm
        · simp [he] at ho; exact h2 q hq o ho (Ne.symm he)
    have cons_iff : Consistent (p :: ps) ↔ (∀ q ∈ ps, q.1 = p.1 → q.2 = p.2) ∧ Consistent ps := by
      unfold Consistent
      constructor
      · intro h
        exact ⟨fun q hq he => h q (by simp [hq]) p (by simp) he,
          fun a ha b hb => h a (by simp [ha]) b (by simp [hb])⟩
      · rintro ⟨h1, h2⟩ a ha b hb hab
        simp only [List.mem_cons] at ha hb
        rcases ha with rfl | ha <;> rcases hb with rfl | hb
        · rfl
        · exact (h1 b hb hab.symm).symm
        · exact h1 a ha hab
        · exact h2 a ha b hb hab
    simp only [scan]
    cases hg : Go.kvGet m p.1 with
    | none =>
      simp only [key, cons_iff, List.mem_cons, forall_eq_or_imp, hg]
      constructor
      · rintro ⟨h1, h2, h3⟩
        refine ⟨⟨by simp, fun q hq o ho => ?_⟩, h1, h3⟩
        by_cases he : q.1 = p.1
        · rw [he, hg] at ho; cases ho
        · exact h2 q hq o ho he
      · rintro ⟨⟨_, h2⟩, h1, h3⟩
        exact ⟨h1, fun q hq o ho _ => h2 q hq o ho, h3⟩
    | some o =>
      by_cases hne : o = p.2
      · have hb : (o != p.2) = false := by simp [hne]
        simp only [hb, Bool.false_eq_true, if_false, key, cons_iff, List.mem_cons, forall_eq_or_imp, hg]
        constructor
        · rintro ⟨h1, h2, h3⟩
          refine ⟨⟨by simp [hne], fun q hq o' ho => ?_⟩, h1, h3⟩
          by_cases he : q.1 = p.1
          · rw [he, hg] at ho; cases ho; rw [hne]; exact (h1 q hq he).symm
          · exact h2 q hq o' ho he
        · rintro ⟨⟨_, h2⟩, h1, h3⟩
          exact ⟨h1, fun q hq o ho _ => h2 q hq o ho, h3⟩
      · have hb : (o != p.2) = true := by simp [hne]
        simp only [hb, if_true, Bool.false_eq_true, false_iff, List.mem_cons, forall_eq_or_imp, hg]
        rintro ⟨⟨h0, _⟩, _⟩
        exact hne (h0 o rfl)

/-- the error of the translated function, in words: some constant text of a parsable trait stands under two
different enum values -/
theorem go_validateParsable_consistent (e : String) (gs : List GTraitDesc) :
    ∃ gs', validateParsableTraits e gs = pure (gs', if decide (Consistent (pairsOf gs)) then none else some validateParsableTraits_err1) := by
  refine ⟨(vpDescs [] [] gs).1, ?_⟩
  rw [go_validateParsable_closed]
  have h := (scan_ok_iff [] (pairsOf gs))
  rw [← (vpDescs_scan [] [] gs).2] at h
  have h' : (vpDescs [] [] gs).2.2.2 = true ↔ Consistent (pairsOf gs) := by
    rw [h]; simp [Go.kvGet]
  by_cases hc : Consistent (pairsOf gs)
  · simp [hc, h'.mpr hc]
  · have : (vpDescs [] [] gs).2.2.2 = false := by
      cases hv : (vpDescs [] [] gs).2.2.2
      · rfl
      · exact absurd (h'.mp hv) hc
    simp [hc, this]


/-- the rows `parsableUnique` compares -/
def modelRows (first : Genum.Value) (ts : List Genum.TraitDesc) : List (String × String) :=
  (ts.filter (·.parsable)).flatMap (fun t =>
    t.rows.map (fun r => (rowText t.ty (r.owner.name == first.name) r.dyn.v, r.owner.name)))

theorem parsableUnique_iff (first : Genum.Value) (ts : List Genum.TraitDesc) :
    parsableUnique first ts = true ↔ Consistent (modelRows first ts) := by
  unfold parsableUnique Consistent modelRows
  simp only [List.all_eq_true, Bool.or_eq_true, Bool.not_eq_true', beq_eq_false_iff_ne, beq_iff_eq]
  constructor
  · intro h p hp q hq he
    rcases h p hp q hq with h1 | h1
    · exact absurd he h1
    · exact h1
  · intro h p hp q hq
    by_cases he : p.1 = q.1
    · exact Or.inr (h p hp q hq he)
    · exact Or.inl he

theorem rows_pairs {first : Genum.Value} {ty : String} {rows : List TraitRow} {xs : List GTraitInstance}
    (h : All₂ (RowRel first ty) rows xs) :
    rows.map (fun r => (rowText ty (r.owner.name == first.name) r.dyn.v, r.owner.name)) = pairsOfInsts xs := by
  induction h with
  | nil => rfl
  | cons hab _ ih =>
    simp only [List.map_cons, pairsOfInsts] at ih ⊢
    rw [ih, hab.text, hab.owner]
    rfl

theorem modelRows_pairs {first : Genum.Value} {ts : List Genum.TraitDesc} {gs : List GTraitDesc}
    (h : All₂ (DescRel first) ts gs) : modelRows first ts = pairsOf gs := by
  induction h with
  | nil => rfl
  | @cons t g ts gs hab _ ih =>
    unfold modelRows pairsOf at ih ⊢
    simp only [List.filter_cons, hab.parsable]
    by_cases hp : t.parsable = true
    · simp only [hp, if_true, List.flatMap_cons, ih, rows_pairs hab.rows]
    · simp only [hp, if_false, ih, Bool.false_eq_true]

theorem vpMark_rel {first : Genum.Value} {ty : String} {r : TraitRow} {x : GTraitInstance}
    (h : RowRel first ty r x) (tm : TMap) : RowRel first ty r (vpMark tm x).2 := by
  unfold vpMark
  by_cases hn : x.keyType.isNil = true
  · rw [if_pos hn]; exact h
  · rw [if_neg hn]
    by_cases ha : (tmGet tm (keyOf x)).any (sameDefault x.keyType) = true
    · simp only [ha, if_true]; exact ⟨h.owner, h.text⟩
    · simp only [ha, if_false, Bool.false_eq_true]; exact h

theorem vpInsts_rel {first : Genum.Value} {ty : String} {rows : List TraitRow} {xs : List GTraitInstance}
    (h : All₂ (RowRel first ty) rows xs) (m : SMap) (tm : TMap) :
    All₂ (RowRel first ty) rows (vpInsts m tm xs).2.2.1 := by
  induction h generalizing m tm with
  | nil => exact .nil
  | @cons r x rows xs hab hrest ih =>
    unfold vpInsts vpStep
    rcases Option.eq_none_or_eq_some (Go.kvGet m x.value) with hg | ⟨o, hg⟩
    · simp only [hg]
      exact .cons (vpMark_rel hab tm) (ih _ _)
    · by_cases hne : (o != x.OwningValue.Name) = true
      · simp only [hg, hne, if_true]
        exact .cons hab hrest
      · simp only [hg, hne, if_false, Bool.false_eq_true]
        exact .cons (vpMark_rel hab tm) (ih _ _)

theorem vpDescs_rel {first : Genum.Value} {ts : List Genum.TraitDesc} {gs : List GTraitDesc}
    (h : All₂ (DescRel first) ts gs) (m : SMap) (tm : TMap) : All₂ (DescRel first) ts (vpDescs m tm gs).1 := by
  induction h generalizing m tm with
  | nil => exact .nil
  | @cons t g ts gs hab hrest ih =>
    unfold vpDescs
    by_cases hp : g.Parsable = true
    · by_cases hok : (vpInsts m tm g.Traits).2.2.2 = true
      · rw [if_pos hp, if_pos hok]
        exact .cons ⟨hab.name, hab.parsable, hab.fam, vpInsts_rel hab.rows m tm⟩ (ih _ _)
      · rw [if_pos hp, if_neg hok]
        exact .cons ⟨hab.name, hab.parsable, hab.fam, vpInsts_rel hab.rows m tm⟩ hrest
    · rw [if_neg hp]
      exact .cons hab (ih _ _)

/-- `validateParsableTraits` on the code's descriptors of the model's traits: no panic; it returns its error exactly
when the model's `parsableUnique` fails; the descriptors it leaves behind are still the model's (it only marks
repeated Parse keys) -/
theorem go_validateParsable_eq (first : Genum.Value) (ts : List Genum.TraitDesc) (gs : List GTraitDesc)
    (h : All₂ (DescRel first) ts gs) (e : String) :
    ∃ gs', validateParsableTraits e gs
        = pure (gs', if parsableUnique first ts then none else some validateParsableTraits_err1) ∧
      All₂ (DescRel first) ts gs' := by
  refine ⟨(vpDescs [] [] gs).1, ?_, vpDescs_rel h [] []⟩
  obtain ⟨gs', hgs⟩ := go_validateParsable_consistent e gs
  have h1 : gs' = (vpDescs [] [] gs).1 := by
    have := go_validateParsable_closed e gs
    rw [this] at hgs
    exact (congrArg Prod.fst (Except.ok.inj hgs)).symm
  rw [hgs, h1, ← modelRows_pairs h]
  by_cases hu : parsableUnique first ts = true
  · simp [hu, (parsableUnique_iff first ts).mp hu]
  · have : ¬ Consistent (modelRows first ts) := fun hc => hu ((parsableUnique_iff first ts).mpr hc)
    simp [hu, this]

/-- headline of C12 (`parsable_unique_or_error`) for the translated code: when a constant text of a parsable trait
stands on the lines of two different enum values, the translated `validateParsableTraits` returns its error -/
theorem go_parsable_unique_or_error (first : Genum.Value) (ts : List Genum.TraitDesc) (gs : List GTraitDesc)
    (h : All₂ (DescRel first) ts gs) (e : String)
    (t t' : Genum.TraitDesc) (ht : t ∈ ts) (ht' : t' ∈ ts) (hp : t.parsable = true) (hp' : t'.parsable = true)
    (r r' : TraitRow) (hr : r ∈ t.rows) (hr' : r' ∈ t'.rows)
    (htext : rowText t.ty (r.owner.name == first.name) r.dyn.v = rowText t'.ty (r'.owner.name == first.name) r'.dyn.v)
    (hown : r.owner.name ≠ r'.owner.name) :
    ∃ gs', validateParsableTraits e gs = pure (gs', some validateParsableTraits_err1) := by
  obtain ⟨gs', hgs, _⟩ := go_validateParsable_eq first ts gs h e
  refine ⟨gs', ?_⟩
  have hu : parsableUnique first ts = false := by
    cases hv : parsableUnique first ts
    · rfl
    · exfalso
      have hc := (parsableUnique_iff first ts).mp hv
      apply hown
      refine hc (rowText t.ty (r.owner.name == first.name) r.dyn.v, r.owner.name) ?_
        (rowText t'.ty (r'.owner.name == first.name) r'.dyn.v, r'.owner.name) ?_ htext
      · unfold modelRows
        simp only [List.mem_flatMap, List.mem_filter, List.mem_map]
        exact ⟨t, ⟨ht, by simpa using hp⟩, r, hr, rfl⟩
      · unfold modelRows
        simp only [List.mem_flatMap, List.mem_filter, List.mem_map]
        exact ⟨t', ⟨ht', by simpa using hp'⟩, r', hr', rfl⟩
  simpa [hu] using hgs

end C12Tie

// go2lean -spec gconfigget: translation of the request path of gconfig/config.go -
//
//	getFromCache[T]      memo key, xsync Compute with its fill callback, error/nil/assertion tail
//	extractAndConvert[T] key split, extract (the TRANSLATED one of Generated/GoGConfigExtract.lean),
//	                     yaml re-marshal / unmarshal
//	Get, MustGet, GetOrDefault
//
// Fragment: `var x T`, `x := e`, `x = e`, `a, b := call`, `if c { … return … }`, `return …`, `panic(err)`,
// and ONE call `v, _ := cfg.cached.Compute(k, func(oldValue any, loaded bool) (any, bool) {…})` whose
// callback may assign its own parameters and captured variables of the enclosing function (they are
// threaded through as the callback's state).  A value of type T or any is a `GConfigCache.TV`; an
// `error` is the Bool "is not nil" (gerror constructors return non-nil errors); the type parameter
// T is a `TyDesc` (identity name + "is an interface type").  strings.Split, yaml.Marshal,
// yaml.Unmarshal and the zero value of T are parameters (`Env`); xsync's Compute and the type
// assertion `v.(T)` have their meaning in Model/GoXsync.lean.  Anything else makes the translator fail.
package main

import (
	"fmt"
	"go/ast"
	"go/parser"
	"go/token"
	"os"
	"path/filepath"
	"strings"
)

func init() { register("gconfigget", "../lean/Generated/GoGConfigGet.lean", runGConfigGet) }

type gt struct {
	env map[string]string // variable -> kind: tv | err | bool | str | strs | bytes | amap | cache | key | any(Y)
	out strings.Builder
	n   int
	fn  string
	// results of the enclosing function (kinds), and whether the function carries the memo table
	rets   []string
	cached bool
}

func (t *gt) line(ind int, s string) { t.out.WriteString(strings.Repeat("  ", ind) + s + "\n") }

func (t *gt) bad(n ast.Node, what string) {
	fail("gconfigget: %s (%s): %s `%s` is outside the translated fragment", at(n), t.fn, what, src(n))
}

var gLean = map[string]string{"tv": "TV", "err": "Bool", "bool": "Bool", "str": "String", "strs": "List String", "bytes": "String", "y": "GConfig.Y", "key": "String × String"}

// isErrCtor: calls that build a (non-nil) error value
func isErrCtor(c *ast.CallExpr) bool {
	switch src(c.Fun) {
	case "ErrConfigFailure.Msg", "ErrConfigFailure.Convert", "gerror.ExtMsgf":
		return true
	}
	return false
}

func (t *gt) kindOf(e ast.Expr) string {
	switch x := e.(type) {
	case *ast.ParenExpr:
		return t.kindOf(x.X)
	case *ast.Ident:
		switch x.Name {
		case "true", "false":
			return "bool"
		case "nil":
			return "nil"
		}
		if k, ok := t.env[x.Name]; ok {
			return k
		}
	case *ast.UnaryExpr:
		if x.Op == token.NOT && t.kindOf(x.X) == "bool" {
			return "bool"
		}
	case *ast.StarExpr:
		// *new(T)
		if c, ok := x.X.(*ast.CallExpr); ok && src(c.Fun) == "new" && len(c.Args) == 1 && src(c.Args[0]) == "T" {
			return "tv"
		}
	case *ast.BinaryExpr:
		if x.Op == token.EQL || x.Op == token.NEQ {
			return "bool"
		}
	case *ast.SelectorExpr:
		if src(x) == "cfg.data" {
			return "amap"
		}
		if src(x) == "cfg.cached" {
			return "cache"
		}
	case *ast.CallExpr:
		if isErrCtor(x) {
			return "err"
		}
	case *ast.TypeAssertExpr:
		if src(x.Type) == "T" && t.kindOf(x.X) == "tv" {
			return "assert"
		}
	case *ast.CompositeLit:
		if src(x.Type) == "cacheKey" {
			return "key"
		}
	}
	t.bad(e, "expression")
	return ""
}

// expr renders a pure expression of the given kind
func (t *gt) expr(e ast.Expr, want string) string {
	switch x := e.(type) {
	case *ast.ParenExpr:
		return t.expr(x.X, want)
	case *ast.Ident:
		switch {
		case x.Name == "true" || x.Name == "false":
			if want == "bool" {
				return x.Name
			}
		case x.Name == "nil":
			if want == "err" {
				return "false"
			}
		default:
			if k, ok := t.env[x.Name]; ok && k == want {
				return name(x.Name)
			}
		}
	case *ast.UnaryExpr:
		if x.Op == token.NOT && want == "bool" {
			return "(!" + t.expr(x.X, "bool") + ")"
		}
	case *ast.StarExpr:
		if want == "tv" && t.kindOf(x) == "tv" {
			return "(env.zero T)"
		}
	case *ast.BinaryExpr:
		if want == "bool" && (x.Op == token.EQL || x.Op == token.NEQ) {
			neg := x.Op == token.NEQ
			l, r := x.X, x.Y
			if t.kindOf(l) == "nil" {
				l, r = r, l
			}
			if t.kindOf(r) == "nil" {
				switch t.kindOf(l) {
				case "err": // err != nil
					if neg {
						return t.expr(l, "err")
					}
					return "(!" + t.expr(l, "err") + ")"
				case "tv": // v == nil on an `any`
					if neg {
						return "(!GoXsync.isNil " + t.expr(l, "tv") + ")"
					}
					return "(GoXsync.isNil " + t.expr(l, "tv") + ")"
				}
			}
		}
	case *ast.CallExpr:
		if want == "err" && isErrCtor(x) {
			// a gerror constructor: a non-nil error.  Its arguments must be translatable reads
			// (no side effects): identifiers, literals, string concatenations of those.
			for _, a := range x.Args {
				if !pureArg(a) {
					t.bad(a, "argument of an error constructor")
				}
			}
			return "true"
		}
	case *ast.CompositeLit:
		if want == "key" && src(x.Type) == "cacheKey" && len(x.Elts) == 2 {
			kv0, ok0 := x.Elts[0].(*ast.KeyValueExpr)
			kv1, ok1 := x.Elts[1].(*ast.KeyValueExpr)
			if ok0 && ok1 && src(kv0.Key) == "key" && src(kv1.Key) == "typ" && t.kindOf(kv0.Value) == "str" && src(kv1.Value) == "reflect.TypeFor[T]()" {
				return "(" + t.expr(kv0.Value, "str") + ", T.name)"
			}
		}
	}
	t.bad(e, "expression (wanted "+want+")")
	return ""
}

func pureArg(e ast.Expr) bool {
	switch x := e.(type) {
	case *ast.Ident:
		return true
	case *ast.BasicLit:
		return true
	case *ast.BinaryExpr:
		return x.Op == token.ADD && pureArg(x.X) && pureArg(x.Y)
	}
	return false
}

func (t *gt) fresh(p string) string { t.n++; return fmt.Sprintf("%s%d", p, t.n) }

// bind introduces or assigns a variable
func (t *gt) bind(ind int, id *ast.Ident, define bool, kind, val string) {
	if id.Name == "_" {
		return
	}
	if define {
		if _, dup := t.env[id.Name]; dup {
			// `a, err := f()` re-using err: Go assigns the existing variable of the same scope
			t.line(ind, name(id.Name)+" := "+val)
			if t.env[id.Name] != kind {
				t.bad(id, "re-declaration with another kind")
			}
			return
		}
		t.env[id.Name] = kind
		t.line(ind, "let mut "+name(id.Name)+" : "+gLean[kind]+" := "+val)
		return
	}
	if t.env[id.Name] != kind {
		t.bad(id, "assignment")
	}
	t.line(ind, name(id.Name)+" := "+val)
}

func idents(es []ast.Expr) []*ast.Ident {
	var r []*ast.Ident
	for _, e := range es {
		id, ok := e.(*ast.Ident)
		if !ok {
			return nil
		}
		r = append(r, id)
	}
	return r
}

// retTuple renders `return a, b` (kinds as declared); with `cached` the memo table comes first
func (t *gt) retTuple(x *ast.ReturnStmt, rets []string, withCache bool) string {
	if len(x.Results) != len(rets) {
		t.bad(x, "return")
	}
	var vs []string
	for i, r := range x.Results {
		vs = append(vs, t.expr(r, rets[i]))
	}
	s := strings.Join(vs, ", ")
	if len(vs) > 1 {
		s = "(" + s + ")"
	}
	if withCache {
		return "(cached, " + s + ")"
	}
	return s
}

func (t *gt) stmts(ind int, list []ast.Stmt, inCallback bool, cbState []string) {
	for _, s := range list {
		t.stmt(ind, s, inCallback, cbState)
	}
}

func (t *gt) stmt(ind int, s ast.Stmt, inCallback bool, cbState []string) {
	switch x := s.(type) {
	case *ast.DeclStmt:
		// var err error / var r T
		gd, ok := x.Decl.(*ast.GenDecl)
		if ok && gd.Tok == token.VAR && len(gd.Specs) == 1 {
			vs := gd.Specs[0].(*ast.ValueSpec)
			if len(vs.Names) == 1 && len(vs.Values) == 0 {
				switch src(vs.Type) {
				case "error":
					t.env[vs.Names[0].Name] = "err"
					t.line(ind, "let mut "+name(vs.Names[0].Name)+" : Bool := false")
					return
				case "T":
					t.env[vs.Names[0].Name] = "tv"
					t.line(ind, "let mut "+name(vs.Names[0].Name)+" : TV := env.zero T")
					return
				}
			}
		}
	case *ast.AssignStmt:
		define := x.Tok == token.DEFINE
		if x.Tok != token.DEFINE && x.Tok != token.ASSIGN {
			break
		}
		lhs := idents(x.Lhs)
		if lhs == nil || len(x.Rhs) != 1 {
			break
		}
		rhs := x.Rhs[0]
		if call, ok := rhs.(*ast.CallExpr); ok && !isErrCtor(call) {
			t.call(ind, lhs, define, call)
			return
		}
		if len(lhs) == 1 {
			k := t.kindOf(rhs)
			if k == "nil" && !define {
				k = t.env[lhs[0].Name]
			}
			t.bind(ind, lhs[0], define, k, t.expr(rhs, k))
			return
		}
	case *ast.IfStmt:
		if x.Init != nil || x.Else != nil {
			break
		}
		t.line(ind, "if "+t.expr(x.Cond, "bool")+" then")
		saved := map[string]string{}
		for k, v := range t.env {
			saved[k] = v
		}
		t.stmts(ind+1, x.Body.List, inCallback, cbState)
		if n := len(x.Body.List); n == 0 || !(endsInReturn(x.Body.List[n-1]) || isPanic(x.Body.List[n-1])) {
			t.bad(x, "an if block that does not end in return/panic")
		}
		t.env = saved
		return
	case *ast.ReturnStmt:
		if inCallback {
			if len(x.Results) != 2 {
				t.bad(x, "return")
			}
			st := strings.Join(cbState, ", ")
			if len(cbState) > 1 {
				st = "(" + st + ")"
			}
			if len(cbState) == 0 {
				st = "()"
			}
			t.line(ind, "return (("+t.expr(x.Results[0], "tv")+", "+t.expr(x.Results[1], "bool")+"), "+st+")")
			return
		}
		// `return v.(T), nil`: the assertion may panic
		if len(x.Results) == len(t.rets) && len(x.Results) >= 1 {
			if ta, ok := x.Results[0].(*ast.TypeAssertExpr); ok && t.kindOf(ta) == "assert" {
				a := t.fresh("a")
				t.line(ind, "let "+a+" ← GoXsync.assertTo T "+t.expr(ta.X, "tv"))
				rest := []string{a}
				for i, r := range x.Results[1:] {
					rest = append(rest, t.expr(r, t.rets[i+1]))
				}
				s := strings.Join(rest, ", ")
				if len(rest) > 1 {
					s = "(" + s + ")"
				}
				if t.cached {
					s = "(cached, " + s + ")"
				}
				t.line(ind, "return "+s)
				return
			}
		}
		// `return getFromCache[T](cfg, key)`
		if len(x.Results) == 1 {
			if c, ok := x.Results[0].(*ast.CallExpr); ok && src(c.Fun) == "getFromCache[T]" {
				t.line(ind, "getFromCache env T data cached "+t.getArgs(c))
				return
			}
		}
		t.line(ind, "return "+t.retTuple(x, t.rets, t.cached))
		return
	case *ast.ExprStmt:
		if isPanic(x) {
			c := x.X.(*ast.CallExpr)
			if len(c.Args) == 1 && t.kindOf(c.Args[0]) == "err" {
				t.line(ind, "throw \"panic(err)\"")
				return
			}
		}
	}
	t.bad(s, "statement")
}

func isPanic(s ast.Stmt) bool {
	es, ok := s.(*ast.ExprStmt)
	if !ok {
		return false
	}
	c, ok := es.X.(*ast.CallExpr)
	return ok && src(c.Fun) == "panic"
}

// getArgs: the arguments `(cfg, key)` of a getFromCache call
func (t *gt) getArgs(c *ast.CallExpr) string {
	if len(c.Args) != 2 || src(c.Args[0]) != "cfg" || t.kindOf(c.Args[1]) != "str" {
		t.bad(c, "call")
	}
	return t.expr(c.Args[1], "str")
}

// call: `lhs… := f(args)` for the known callees
func (t *gt) call(ind int, lhs []*ast.Ident, define bool, c *ast.CallExpr) {
	f := src(c.Fun)
	switch {
	case f == "strings.Split" && len(lhs) == 1 && len(c.Args) == 2 && src(c.Args[1]) == `"."` && t.kindOf(c.Args[0]) == "str":
		t.env[lhs[0].Name] = "strs"
		t.line(ind, "let "+name(lhs[0].Name)+" : List String := env.split "+t.expr(c.Args[0], "str"))
	case f == "extract" && len(lhs) == 2 && len(c.Args) == 2 && t.kindOf(c.Args[0]) == "amap" && t.kindOf(c.Args[1]) == "strs":
		p := t.fresh("p")
		t.line(ind, "let "+p+" ← Generated.GoGConfigExtract.extract "+t.amap(c.Args[0])+" "+t.expr(c.Args[1], "strs"))
		t.bind(ind, lhs[0], define, "y", p+".1")
		t.bind(ind, lhs[1], define, "bool", p+".2")
	case f == "yaml.Marshal" && len(lhs) == 2 && len(c.Args) == 1 && t.kindOf(c.Args[0]) == "y":
		p := t.fresh("p")
		t.line(ind, "let "+p+" := env.marshal "+t.expr(c.Args[0], "y"))
		t.bind(ind, lhs[0], define, "bytes", p+".1")
		t.bind(ind, lhs[1], define, "err", p+".2")
	case f == "yaml.Unmarshal" && len(lhs) == 1 && len(c.Args) == 2 && t.kindOf(c.Args[0]) == "bytes":
		// err = yaml.Unmarshal(bytes, &result): decodes INTO result
		u, ok := c.Args[1].(*ast.UnaryExpr)
		if !ok || u.Op != token.AND || t.kindOf(u.X) != "tv" {
			t.bad(c, "call")
		}
		p := t.fresh("p")
		t.line(ind, "let "+p+" := env.unmarshal T "+t.expr(c.Args[0], "bytes")+" "+t.expr(u.X, "tv"))
		t.line(ind, t.expr(u.X, "tv")+" := "+p+".1")
		t.bind(ind, lhs[0], define, "err", p+".2")
	case f == "extractAndConvert[T]" && len(lhs) == 2 && len(c.Args) == 2 && t.kindOf(c.Args[0]) == "amap" && t.kindOf(c.Args[1]) == "str":
		p := t.fresh("p")
		t.line(ind, "let "+p+" ← extractAndConvert env T "+t.amap(c.Args[0])+" "+t.expr(c.Args[1], "str"))
		t.bind(ind, lhs[0], define, "tv", p+".1")
		t.bind(ind, lhs[1], define, "err", p+".2")
	case f == "getFromCache[T]" && len(lhs) == 2:
		p := t.fresh("p")
		t.line(ind, "let "+p+" ← getFromCache env T data cached "+t.getArgs(c))
		t.line(ind, "cached := "+p+".1")
		t.bind(ind, lhs[0], define, "tv", p+".2.1")
		t.bind(ind, lhs[1], define, "err", p+".2.2")
	case f == "cfg.cached.Compute" && len(lhs) == 2 && lhs[1].Name == "_" && len(c.Args) == 2 && t.kindOf(c.Args[0]) == "key":
		t.compute(ind, lhs[0], define, c)
	default:
		t.bad(c, "call")
	}
}

func (t *gt) amap(e ast.Expr) string {
	if src(e) == "cfg.data" {
		return "data"
	}
	return t.expr(e, "amap")
}

// assignedOuter: variables of the enclosing function that the callback body assigns
func assignedOuter(body *ast.BlockStmt, outer map[string]string, params map[string]bool) []string {
	seen := map[string]bool{}
	var r []string
	ast.Inspect(body, func(n ast.Node) bool {
		if as, ok := n.(*ast.AssignStmt); ok {
			for _, l := range as.Lhs {
				if id, ok := l.(*ast.Ident); ok && !params[id.Name] && outer[id.Name] != "" && !seen[id.Name] {
					seen[id.Name] = true
					r = append(r, id.Name)
				}
			}
		}
		return true
	})
	return r
}

func (t *gt) compute(ind int, v *ast.Ident, define bool, c *ast.CallExpr) {
	fl, ok := c.Args[1].(*ast.FuncLit)
	if !ok {
		t.bad(c, "Compute callback")
	}
	ps := fl.Type.Params.List
	if len(ps) != 2 || len(ps[0].Names) != 1 || len(ps[1].Names) != 1 || src(ps[0].Type) != "any" || src(ps[1].Type) != "bool" ||
		fl.Type.Results == nil || len(fl.Type.Results.List) != 2 || src(fl.Type.Results.List[0].Type) != "any" || src(fl.Type.Results.List[1].Type) != "bool" {
		t.bad(fl.Type, "Compute callback signature")
	}
	pOld, pLoaded := ps[0].Names[0].Name, ps[1].Names[0].Name
	state := assignedOuter(fl.Body, t.env, map[string]bool{pOld: true, pLoaded: true})
	for _, sv := range state {
		if t.env[sv] != "err" {
			t.bad(fl, "callback assigns captured variable "+sv+" of kind "+t.env[sv]+";")
		}
	}
	stTuple := strings.Join(state, ", ")
	stPat := stTuple
	if len(state) > 1 {
		stTuple, stPat = "("+stTuple+")", "("+stPat+")"
	}
	if len(state) == 0 {
		stTuple, stPat = "()", "_"
	}
	r := t.fresh("c")
	t.line(ind, "let "+r+" ← GoXsync.compute cached "+t.expr(c.Args[0], "key")+" "+stTuple+" (fun "+name(pOld)+"0 "+name(pLoaded)+" st0 => do")
	saved := map[string]string{}
	for k, v := range t.env {
		saved[k] = v
	}
	t.env[pOld], t.env[pLoaded] = "tv", "bool"
	t.line(ind+1, "let mut "+name(pOld)+" : TV := "+name(pOld)+"0")
	switch len(state) {
	case 0:
	case 1:
		t.line(ind+1, "let mut "+name(state[0])+" : Bool := st0")
	default:
		fail("gconfigget: more than one captured variable assigned in the Compute callback")
	}
	t.stmts(ind+1, fl.Body.List, true, state)
	if n := len(fl.Body.List); n == 0 || !endsInReturn(fl.Body.List[n-1]) {
		t.bad(fl, "a callback that can fall off its end")
	}
	t.line(ind+1, ")")
	t.env = saved
	t.line(ind, "cached := "+r+".1")
	t.bind(ind, v, define, "tv", r+".2.1.1")
	if len(state) == 1 {
		t.line(ind, name(state[0])+" := "+r+".2.2")
	}
}

func runGConfigGet(repo, out string) {
	file, err := parser.ParseFile(fset, filepath.Join(repo, "gconfig/config.go"), nil, 0)
	if err != nil {
		fail("%v", err)
	}
	decls := map[string]*ast.FuncDecl{}
	for _, d := range file.Decls {
		switch x := d.(type) {
		case *ast.FuncDecl:
			if x.Recv == nil {
				decls[x.Name.Name] = x
			}
		case *ast.GenDecl:
			if x.Tok == token.TYPE {
				for _, sp := range x.Specs {
					ts := sp.(*ast.TypeSpec)
					switch ts.Name.Name {
					case "cacheKey":
						if got := src(ts.Type); got != "struct { key string typ reflect.Type }" {
							fail("gconfigget: type cacheKey is `%s`; the translation reads it as the pair (key string, typ reflect.Type)", got)
						}
					case "Config":
						if got := src(ts.Type); !strings.Contains(got, "cached *xsync.MapOf[cacheKey, any]") || !strings.Contains(got, "data map[string]any") {
							fail("gconfigget: type Config is `%s`; the translation needs `cached *xsync.MapOf[cacheKey, any]` and `data map[string]any`", got)
						}
					}
				}
			}
		}
	}
	var b strings.Builder
	b.WriteString("import Model.GoXsync\nimport Generated.GoGConfigExtract\n")
	b.WriteString("/-! REGENERATED on every run by harness/cmd/go2lean -spec gconfigget from gconfig/config.go (extractAndConvert,\ngetFromCache, Get, MustGet, GetOrDefault).  Do not edit.  One Lean statement per Go statement.  A value of type T or\n`any` is a `GConfigCache.TV`, an `error` is the Bool \"is not nil\", the type parameter T is a `GoXsync.TyDesc`, the\nmemo table `cfg.cached` is threaded through as `cached` (returned first), `cfg.data` is `data`.  `extract` is the\nTRANSLATED one (Generated/GoGConfigExtract.lean).  xsync's Compute and `v.(T)`: Model/GoXsync.lean. -/\nnamespace Generated.GoGConfigGet\nopen GConfigCache GoXsync\n\n")
	b.WriteString("/-- what the translated functions take from outside: strings.Split(·, \".\"), yaml.Marshal (bytes, error),\nyaml.Unmarshal(bytes, &result) (the new contents of result, error), the zero value of T -/\nstructure Env where\n  split : String → List String\n  marshal : GConfig.Y → String × Bool\n  unmarshal : TyDesc → String → TV → TV × Bool\n  zero : TyDesc → TV\n\n")
	type fn struct {
		name, params, sig, retTy string
		env                      map[string]string
		rets                     []string
		cached                   bool
	}
	cache := "Cache (String × String)"
	for _, f := range []fn{
		{"extractAndConvert", "m map[string]any, key string", "(env : Env) (T : TyDesc) (m : List (String × GConfig.Y)) (key : String)", "TV × Bool",
			map[string]string{"m": "amap", "key": "str"}, []string{"tv", "err"}, false},
		{"getFromCache", "cfg *Config, key string", "(env : Env) (T : TyDesc) (data : List (String × GConfig.Y)) (cached : " + cache + ") (key : String)", cache + " × (TV × Bool)",
			map[string]string{"key": "str"}, []string{"tv", "err"}, true},
		{"Get", "cfg *Config, key string", "(env : Env) (T : TyDesc) (data : List (String × GConfig.Y)) (cached : " + cache + ") (key : String)", cache + " × (TV × Bool)",
			map[string]string{"key": "str"}, []string{"tv", "err"}, true},
		{"MustGet", "cfg *Config, key string", "(env : Env) (T : TyDesc) (data : List (String × GConfig.Y)) (cached : " + cache + ") (key : String)", cache + " × TV",
			map[string]string{"key": "str"}, []string{"tv"}, true},
		{"GetOrDefault", "cfg *Config, key string, defaultV T", "(env : Env) (T : TyDesc) (data : List (String × GConfig.Y)) (cached : " + cache + ") (key : String) (defaultV : TV)", cache + " × TV",
			map[string]string{"key": "str", "defaultV": "tv"}, []string{"tv"}, true},
	} {
		fd := decls[f.name]
		if fd == nil {
			fail("gconfigget: func %s not found", f.name)
		}
		var ps []string
		for _, p := range fd.Type.Params.List {
			for _, n := range p.Names {
				ps = append(ps, n.Name+" "+src(p.Type))
			}
		}
		if strings.Join(ps, ", ") != f.params {
			fail("gconfigget: %s has parameters (%s), the translation assumes (%s)", f.name, strings.Join(ps, ", "), f.params)
		}
		if tp := fd.Type.TypeParams; tp == nil || len(tp.List) != 1 || len(tp.List[0].Names) != 1 || tp.List[0].Names[0].Name != "T" || src(tp.List[0].Type) != "any" {
			fail("gconfigget: %s: type parameters (the translation assumes [T any])", f.name)
		}
		var rs []string
		if fd.Type.Results != nil {
			for _, r := range fd.Type.Results.List {
				if len(r.Names) > 0 {
					fail("gconfigget: %s has named results", f.name)
				}
				rs = append(rs, src(r.Type))
			}
		}
		want := map[int]string{1: "T", 2: "T error"}[len(f.rets)]
		if strings.Join(rs, " ") != want {
			fail("gconfigget: %s returns (%s), the translation assumes (%s)", f.name, strings.Join(rs, ", "), want)
		}
		t := &gt{env: f.env, fn: f.name, rets: f.rets, cached: f.cached}
		if f.cached {
			t.line(1, "let mut cached := cached")
		}
		t.stmts(1, fd.Body.List, false, nil)
		if n := len(fd.Body.List); n == 0 || !endsInReturn(fd.Body.List[n-1]) {
			fail("gconfigget: %s can fall off its end", f.name)
		}
		fmt.Fprintf(&b, "/-- `%s` -/\ndef %s %s : Go.M (%s) := do\n%s\n", src(&ast.FuncDecl{Name: fd.Name, Type: fd.Type}), f.name, f.sig, f.retTy, t.out.String())
	}
	b.WriteString("end Generated.GoGConfigGet\n")
	if err := os.WriteFile(out, []byte(b.String()), 0o644); err != nil {
		fail("%v", err)
	}
	fmt.Printf("go2lean gconfigget: extractAndConvert, getFromCache, Get, MustGet, GetOrDefault -> %s\n", out)
}

import Model.GErrClone
namespace GErrClone
theorem placeholder_c15 : run ⟨[], [], [], [], []⟩ [] = ⟨[], [], [], [], []⟩ := rfl
end GErrClone

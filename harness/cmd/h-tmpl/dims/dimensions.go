// Copied from /repo/gconfig/internal (an internal package cannot be imported from here); package renamed.
//nolint:revive // test only
package dims

//go:generate genum -types=DimensionOne,DimensionTwo,DimensionThree -caseInsensitive
type DimensionOne int

const (
	D1a DimensionOne = iota
	D1b
	D1c
	D1d
)

type DimensionTwo int

const (
	D2a DimensionTwo = iota
	D2b
	D2c
	D2d
	D2e
)

type DimensionThree int

const (
	D3a DimensionThree = iota
	D3b
	D3c
)

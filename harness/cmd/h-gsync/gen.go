package main

import (
	"fmt"
	"math/rand"
	"os"
	"runtime"
	"strconv"
	"strings"

	"verif/harness/internal/hx"
)

func progString(p []call) string {
	ws := make([]string, len(p))
	for i, c := range p {
		switch c.kind {
		case "a":
			ws[i] = fmt.Sprintf("a%d", c.d)
		default:
			ws[i] = c.kind
		}
	}
	return strings.Join(ws, " ")
}

func caseLine(variant string, progs [][]call) string {
	ps := make([]string, len(progs))
	for i, p := range progs {
		ps[i] = progString(p)
	}
	return "case gsync " + variant + " | " + strings.Join(ps, " | ")
}

// genProgs: 2-4 goroutines, 1-4 calls each; every goroutine only decrements what it has itself
// incremented before (so the count never goes negative under any schedule).
func genProgs(rng *rand.Rand) [][]call {
	if rng.Intn(3) == 0 {
		return genCrossProgs(rng)
	}
	n := 2 + rng.Intn(3)
	progs := make([][]call, n)
	for i := range progs {
		k := 1 + rng.Intn(4)
		bal := 0
		for j := 0; j < k; j++ {
			switch x := rng.Intn(10); {
			case x < 4:
				d := []int{1, 1, 2, 3}[rng.Intn(4)]
				if rng.Intn(40) == 0 {
					d = []int{1 << 30, 1 << 31, 1<<32 - 1, 1 << 40}[rng.Intn(4)] // wide totals
				}
				progs[i] = append(progs[i], call{kind: "a", d: d})
				bal += d
			case x < 7 && bal > 0:
				d := 1 + rng.Intn(bal)
				if d > 2 {
					d = 2
				}
				progs[i] = append(progs[i], call{kind: "a", d: -d})
				bal -= d
			case x < 9:
				progs[i] = append(progs[i], call{kind: "w"})
			default:
				progs[i] = append(progs[i], call{kind: "c"})
			}
		}
	}
	return progs
}

// genCrossProgs: increments and their decrements may sit in DIFFERENT goroutines (as when one
// goroutine calls Inc and a worker calls Dec); Add(0) occurs too. The schedule generators keep
// the count non-negative by admitting a decrement only when the counter covers it (gImpl.gated).
func genCrossProgs(rng *rand.Rand) [][]call {
	n := 2 + rng.Intn(3)
	progs := make([][]call, n)
	k := 1 + rng.Intn(3)
	for i := 0; i < k; i++ {
		d := []int{1, 1, 2}[rng.Intn(3)]
		a, b := rng.Intn(n), rng.Intn(n)
		progs[a] = append(progs[a], call{kind: "a", d: d})
		if rng.Intn(5) != 0 {
			progs[b] = append(progs[b], call{kind: "a", d: -d})
		}
	}
	for i := range progs {
		if rng.Intn(2) == 0 {
			progs[i] = append(progs[i], call{kind: "w"})
		}
		if rng.Intn(6) == 0 {
			progs[i] = append(progs[i], call{kind: "a", d: 0})
		}
		if rng.Intn(6) == 0 {
			progs[i] = append(progs[i], call{kind: "c"})
		}
		rng.Shuffle(len(progs[i]), func(x, y int) { progs[i][x], progs[i][y] = progs[i][y], progs[i][x] })
		if len(progs[i]) == 0 {
			progs[i] = []call{{kind: "w"}}
		}
		if len(progs[i]) > 4 {
			progs[i] = progs[i][:4]
		}
	}
	return progs
}

type driver struct {
	g     *gImpl
	lines []string
}

func newDriver(variant string, progs [][]call) *driver {
	d := &driver{g: &gImpl{}}
	l := caseLine(variant, progs)
	d.lines = []string{l}
	d.g.Exec(l)
	return d
}

func (d *driver) do(line string) string {
	d.lines = append(d.lines, line)
	return d.g.Exec(line)
}

// live: the goroutines that have not finished and whose next step may be taken now (a decrement
// the counter does not cover yet is held back)
func (d *driver) live() []int {
	var l []int
	for i := range d.g.threads {
		if !d.g.s.Done(i) && !d.g.gated(i) {
			l = append(l, i)
		}
	}
	return l
}

func (d *driver) allDone() bool {
	for i := range d.g.threads {
		if !d.g.s.Done(i) {
			return false
		}
	}
	return true
}

// schedule styles: uniformly random; or bursts (one goroutine performs k operations, then another
// runs for a while) — the shape that exposes transition races.
func genCase(rng *rand.Rand, variant string, progs [][]call, style int) hx.Case {
	d := newDriver(variant, progs)
	steps := 0
	cur, left := -1, 0
	hasWait, hasAdd := false, false
	for _, p := range progs {
		for _, c := range p {
			hasWait = hasWait || c.kind == "w"
			hasAdd = hasAdd || c.kind == "a"
		}
	}
	for steps < 150 {
		live := d.live()
		if len(live) == 0 {
			break
		}
		var tid int
		if style == 0 {
			tid = live[rng.Intn(len(live))]
		} else {
			alive := false
			for _, x := range live {
				alive = alive || x == cur
			}
			if left <= 0 || !alive {
				cur = live[rng.Intn(len(live))]
				left = 1 + rng.Intn(style*3)
			}
			tid = cur
			left--
		}
		out := d.do(fmt.Sprintf("gs step %d", tid))
		if strings.HasPrefix(out, "blocked") {
			left = 0
		}
		steps++
		if d.g.inAdd == 0 && rng.Intn(12) == 0 {
			d.do("gs probe")
		}
	}
	if d.allDone() {
		d.do("gs probe")
		if rng.Intn(25) == 0 {
			d.do("gs deadline")
		}
	}
	d.g.s.Kill()
	return hx.Case{Domain: true, Nontrivial: hasWait && hasAdd && len(progs) >= 2, Lines: d.lines,
		Tags: []string{fmt.Sprintf("threads%d", len(progs)), fmt.Sprintf("style%d", style)}}
}

// dfs enumerates every schedule of progs with at most `bound` preemptions (a switch away from a
// goroutine that could still run and is not blocked), re-executing the prefix for every node.
func dfs(variant string, progs [][]call, bound int, emit0 func(hx.Case), limit *int) {
	tag := "dfs:" + strings.TrimPrefix(caseLine("", progs), "case gsync  | ")
	emit := func(c hx.Case) {
		if os.Getenv("VERIF_DFSTAGS") != "" {
			c.Tags = append(c.Tags, tag)
		}
		emit0(c)
	}
	// iterative deepening on the number of preemptions: all schedules with 0, then exactly 1, then
	// exactly 2, ... preemptions, so that the limit cuts off the least likely schedules first
	for b := 0; b <= bound; b++ {
		dfsExact(variant, progs, b, emit, limit)
	}
}

func dfsExact(variant string, progs [][]call, bound int, emit func(hx.Case), limit *int) {
	// build re-executes a prefix from scratch
	build := func(prefix []int) (*driver, bool) {
		d := newDriver(variant, progs)
		blockedLast := false
		for _, t := range prefix {
			out := d.do(fmt.Sprintf("gs step %d", t))
			blockedLast = strings.HasPrefix(out, "blocked")
		}
		return d, blockedLast
	}
	// rec visits the node `prefix`. d, when not nil, is a driver that has executed exactly prefix
	// (handed down from the parent to its FIRST child, so that a schedule costs one execution from
	// its last branching point instead of one execution per node); the other children re-execute.
	// Same nodes, same order, same cases as re-executing at every node.
	var rec func(d *driver, blockedLast bool, prefix []int, last int, used int)
	rec = func(d *driver, blockedLast bool, prefix []int, last int, used int) {
		if *limit <= 0 {
			if d != nil {
				d.g.s.Kill()
			}
			return
		}
		if d == nil {
			d, blockedLast = build(prefix)
		}
		live := d.live()
		if len(live) == 0 || len(prefix) >= 60 {
			if d.allDone() {
				d.do("gs probe")
			}
			d.g.s.Kill()
			if used != bound {
				return // counted in an earlier round
			}
			*limit--
			emit(hx.Case{Domain: true, Nontrivial: true, Lines: d.lines, Tags: []string{"dfs"}})
			return
		}
		lastLive := false
		for _, x := range live {
			lastLive = lastLive || x == last
		}
		type kid struct{ t, cost int }
		var kids []kid
		for _, t := range live {
			cost := 0
			if lastLive && t != last && !blockedLast {
				cost = 1
			}
			if blockedLast && t == last {
				continue // re-trying a blocked lock immediately is a pure stutter
			}
			if used+cost > bound {
				continue
			}
			kids = append(kids, kid{t, cost})
		}
		if len(kids) == 0 {
			d.g.s.Kill()
			return
		}
		for i, k := range kids {
			np := append(append([]int{}, prefix...), k.t)
			if i == 0 {
				out := d.do(fmt.Sprintf("gs step %d", k.t))
				rec(d, strings.HasPrefix(out, "blocked"), np, k.t, used+k.cost)
			} else {
				rec(nil, false, np, k.t, used+k.cost)
			}
		}
	}
	rec(nil, false, nil, -1, 0)
}

var dfsPrograms = [][][]call{
	// a non-final decrement on one goroutine while another registers work, count >= 2 throughout
	// (no zero crossing): a decrement that is lost or applied twice shows in Count() at rest
	{{{"a", 2}}, {{"a", 1}}, {{"a", -1}, {"c", 0}}},
	{{{"a", 2}, {"w", 0}}, {{"a", 1}, {"a", -1}}, {{"a", -1}}},
	// two waiters around a zero crossing followed by a fresh increment
	{{{"a", 1}, {"a", -1}}, {{"w", 0}}, {{"a", 1}, {"w", 0}}},
	// totals beyond 32 bits (a narrowed counter would wrap to zero and release the waiter)
	{{{"a", 1 << 30}, {"a", 1 << 30}, {"a", 1 << 30}, {"a", 1 << 30}}, {{"w", 0}}},
	{{{"a", 1}}, {{"w", 0}}, {{"a", -1}, {"a", 1}}, {{"a", -1}}},
	{{{"a", 0}, {"w", 0}}, {{"a", 1}, {"a", -1}, {"a", 0}}},
	{{{"a", 1}, {"a", -1}}, {{"a", 1}, {"a", -1}, {"a", 1}}, {{"w", 0}}},
	{{{"a", 1}, {"a", -1}}, {{"w", 0}, {"c", 0}}, {{"a", 2}, {"a", -2}}},
	{{{"a", 1}, {"w", 0}, {"a", -1}}, {{"a", 1}, {"a", -1}}},
	{{{"a", 2}, {"a", -1}, {"a", -1}}, {{"w", 0}, {"w", 0}}, {{"a", 1}, {"a", -1}}},
	// a Wait that starts after its goroutine's own increment returned (the count is >= 1 for the
	// whole interval, whatever the others do) next to a goroutine crossing zero: a release that is
	// decided on a stale view (a retry loop that keeps a decision of a failed attempt) closes the
	// live channel
	{{{"a", 1}, {"a", -1}}, {{"a", 1}, {"w", 0}}},
	// four and more edge transitions (0->1, 1->0, 0->1, ...) spread over three goroutines, the
	// last one keeps the count at 1 and then waits: a release that acts late (after the critical
	// section) meets a later cycle
	{{{"a", 1}, {"a", -1}}, {{"a", 1}, {"a", -1}}, {{"a", 1}, {"w", 0}}},
}

// dfsProgramsThorough: enumerated in the thorough tier only (and by the widened search after a
// broken lock-step).
var dfsProgramsThorough = [][][]call{
	{{{"a", 1}, {"a", -1}}, {{"a", 1}, {"a", -1}}, {{"a", 1}, {"a", -1}}, {{"w", 0}, {"c", 0}, {"w", 0}}},
	{{{"a", 1}, {"a", -1}, {"a", 1}, {"a", -1}}, {{"a", 1}, {"a", -1}, {"a", 1}, {"w", 0}}},
	{{{"a", 1}, {"w", 0}, {"a", -1}}, {{"a", 1}, {"w", 0}, {"a", -1}}, {{"c", 0}, {"w", 0}}},
	{{{"a", 2}, {"a", -2}}, {{"a", 1}, {"a", 1}, {"a", -2}, {"w", 0}}, {{"a", 0}, {"w", 0}}},
}

func runGSync(f *hx.Flags) {
	impl := &gImpl{}
	r := hx.NewRunner(f, "h-gsync", impl, "client programs of 2-4 goroutines x 1-4 calls (Add +/-n, Wait, Count; each goroutine only decrements what it incremented), run under the cooperative scheduler on an instrumented copy of /repo/gsync: uniformly random schedules, burst schedules, and every schedule with <=2 (quick) / <=3 (thorough) preemptions of twelve (thorough: sixteen) fixed 2-4 goroutine programs (a decrement is admitted once the increments that have returned, or the implementation's counter, cover it); after EVERY step label class, counter, installed channel, closed channels, lock holder, per-goroutine call status, return values, Wait results with closed-ness and zero-seen flags are compared with Model/GSync.step; Count()/Wait() probes at rest. An implementation-side monitor evaluates C01/C02 exactly as worded. non-trivial: >=2 goroutines with at least one Wait and one Add; distinct by (program, schedule)")
	r.TieOnly = true
	r.ImplVerdict = func(l string) string {
		if i := strings.Index(l, " mon="); i >= 0 {
			v := l[i+5:]
			if strings.HasPrefix(v, f.Prop) || f.Prop == "C01" && strings.HasPrefix(v, "C0") {
				return strings.Fields(v)[0]
			}
			if strings.HasPrefix(v, "C0") {
				return "" // the other gsync property's monitor; reported by its own check
			}
		}
		return ""
	}
	if f.Prop == "C02" {
		r.ImplVerdict = func(l string) string {
			if i := strings.Index(l, " mon=C02"); i >= 0 {
				return strings.Fields(l[i+5:])[0]
			}
			return ""
		}
	} else {
		r.ImplVerdict = func(l string) string {
			if i := strings.Index(l, " mon=C01"); i >= 0 {
				return strings.Fields(l[i+5:])[0]
			}
			return ""
		}
	}
	r.Compare = func(req, a, b string) bool {
		// the monitor verdict is an implementation-side annotation, not part of the lock-step
		if i := strings.Index(a, " mon="); i >= 0 {
			a = a[:i]
		}
		return a == b
	}
	r.KeyOf = func(d *hx.Disagreement) string { return f.Prop + ":lockstep" }
	if r.HandleReplay() {
		return
	}
	r.RunCorpus()
	variant := "cur"
	nprog, nsched, bound, limit := r.N(700), 6, 2, 12000
	if f.Tier == "thorough" {
		// 100000 schedules per enumerated program (20 programs): about 20 minutes; the widened search
		// after a broken lock-step keeps the larger budget
		nprog, nsched, bound, limit = r.N(12000), 12, 3, 100000
	}
	for i := 0; i < nprog; i++ {
		progs := genProgs(r.Rng)
		for j := 0; j < nsched; j++ {
			r.Add(genCase(r.Rng, variant, progs, j%3))
		}
	}
	if v, err := strconv.Atoi(os.Getenv("VERIF_DFSLIMIT")); err == nil && v > 0 {
		limit = v // experiments: schedules per enumerated program
	}
	enum := dfsPrograms
	if f.Tier == "thorough" {
		enum = append(append([][][]call{}, dfsPrograms...), dfsProgramsThorough...)
	}
	for _, progs := range enum {
		lim := limit
		dfs(variant, progs, bound, r.Add, &lim)
	}
	r.Flush()
	// L3: the lock-step broke and the monitor has not fired yet: widen the search
	tie, mon := 0, 0
	for _, d := range r.Res.Disagreements {
		if d.Kind == "tie-broken" {
			tie++
		} else {
			mon++
		}
	}
	if tie > 0 && mon == 0 {
		// bounded so that the quick tier stays a quick tier (the thorough tier already enumerates
		// <=3 preemptions exhaustively above)
		lim, nrand := 40000, 600
		if f.Tier == "thorough" {
			lim, nrand = 300000, 3000
		}
		wide := append(append([][][]call{}, dfsPrograms...), dfsProgramsThorough...)
		for _, progs := range wide {
			l := lim / len(wide)
			dfs(variant, progs, 3, r.Add, &l)
			r.Flush()
		}
		for i := 0; i < nrand; i++ {
			progs := genProgs(r.Rng)
			if i%2 == 1 {
				progs = genCrossProgs(r.Rng)
			}
			for j := 0; j < 10; j++ {
				r.Add(genCase(r.Rng, variant, progs, j%3))
			}
			if i%100 == 99 {
				r.Flush()
			}
		}
		r.Res.Extra["l3_search"] = fmt.Sprintf("lock-step broke without a monitor hit: widened schedule enumeration (<=3 preemptions, %d schedules) and %d more random schedules", lim, nrand*10)
	}
	if os.Getenv("VERIF_MEMSTAT") != "" {
		var ms runtime.MemStats
		runtime.GC()
		runtime.ReadMemStats(&ms)
		fmt.Fprintf(os.Stderr, "goroutines=%d heap=%dMB sys=%dMB stack=%dMB\n", runtime.NumGoroutine(), ms.HeapAlloc>>20, ms.Sys>>20, ms.StackSys>>20)
	}
	r.Finish()
}

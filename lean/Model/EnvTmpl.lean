/-!
# Model of `gconfig/yaml_templates.go` (+ the call site in `builder.go` `FromBytes`)

Strings are `List Char` (Unicode scalar values; Go's `regexp` decodes the same runes from valid
UTF-8).

## The matcher

`envVarTmplMatcher` is one anchored regular expression.  Current tree (after the recorded fix):

    ^\$\{\{\s*env:\s*(\w+)\s*(?:\|\s*(.*\S)\s*)?\}\}$

pinned commit (`…Legacy`):

    ^\$\{\{\s*env:\s*(\w+)\s*\|?\s*(.*\S)?\s*\}\}$

`matchTemplate` / `matchTemplateLegacy` are hand-written matchers that denote these patterns under
RE2's leftmost-first, greedy semantics (`\s` = `[\t\n\f\r ]`, `\w` = `[0-9A-Za-z_]`, `.` = any rune
but `\n`, `$` = end of text).  They return what `FindStringSubmatch` captures: group 1 (the
variable name) and group 2 (the default; `none` when the group did not take part or is empty —
the Go code only asks `matches[2] != ""`).  Why a deterministic left-to-right scan denotes the
backtracking search: every star is followed by a character outside its class (`\s*` by `e`, `\w`,
`|`, `}` or a non-blank), so the greedy choice is the only one that can succeed; `(\w+)` must be
the maximal run (fixed pattern: the next symbol is blank, `|` or `}`; legacy pattern: whenever a
shorter run matches, the longer one does too and is tried first); `(.*\S)` has to end at the last
non-blank before the final `}}`, which `$` pins to the end of the text, and `.*` must not cross a
line feed.  That reading of the RE2 engine is *trusted* and checked differentially by the harness
against Go's `regexp` on the pattern extracted from the package source.

## The substitution

`resolveStr` is `envVarTmpl.MatchAndResolve`, `resolveTemplates` is `parseTemplatedElements`
(string / map / list cases, first error aborts).  `select` is the one-dimension instance of the
dimension reduction that `FromBytes` runs *before* `parseTemplatedElements` (its general form is
property C03's business); `load` is their composition as in `FromBytes`.

The SPEC (`IsTemplate`, `SpecResolve`, `varsOnSelected`, …) mirrors the property text and lives in
the second half of the file.
-/
namespace EnvTmpl

abbrev Str := List Char

/-! ### character classes of the pattern -/

/-- RE2 `\s` -/
def isWs (c : Char) : Bool := c == ' ' || c == '\t' || c == '\n' || c == '\x0c' || c == '\r'
/-- RE2 `\w` -/
def isWord (c : Char) : Bool := c.isAlphanum || c == '_'

def openB : Str := ['$', '{', '{']
def envKw : Str := ['e', 'n', 'v', ':']
def closeB : Str := ['}', '}']

/-! ### list helpers -/

/-- literal prefix -/
def stripPrefix : Str → Str → Option Str
  | [], s => some s
  | _ :: _, [] => none
  | p :: ps, c :: cs => if p = c then stripPrefix ps cs else none

/-- drop the maximal suffix whose characters satisfy `p` -/
def trimRight (p : Char → Bool) (l : Str) : Str := (l.reverse.dropWhile p).reverse

/-- literal suffix -/
def stripSuffix (suf l : Str) : Option Str :=
  (stripPrefix suf.reverse l.reverse).map List.reverse

/-! ### the tail of the pattern after `(\w+)` -/

/-- `\s*(?:\|\s*(.*\S)\s*)?\}\}$` on the text after the name. `some none` = matched without
default, `some (some d)` = matched with capture `d`. -/
def matchTail (r5 : Str) : Option (Option Str) :=
  match r5.dropWhile isWs with
  | '|' :: r7 =>
    match stripSuffix closeB (r7.dropWhile isWs) with
    | none => none
    | some body =>
      let d := trimRight isWs body
      if d.isEmpty || d.contains '\n' then none else some (some d)
  | r6 => if r6 = closeB then some none else none

/-- `\s*\|?\s*(.*\S)?\s*\}\}$` (pinned commit): the `|` is optional and so is the capture. -/
def matchTailLegacy (r5 : Str) : Option (Option Str) :=
  let r6 := r5.dropWhile isWs
  let r7 := match r6 with
    | '|' :: r => r
    | r => r
  match stripSuffix closeB (r7.dropWhile isWs) with
  | none => none
  | some body =>
    let d := trimRight isWs body
    if d.contains '\n' then none else some (if d.isEmpty then none else some d)

/-- `^\$\{\{\s*env:\s*(\w+)` then `tail`. -/
def matchWith (tail : Str → Option (Option Str)) (s : Str) : Option (Str × Option Str) :=
  match stripPrefix openB s with
  | none => none
  | some r1 =>
    match stripPrefix envKw (r1.dropWhile isWs) with
    | none => none
    | some r3 =>
      let r4 := r3.dropWhile isWs
      let name := r4.takeWhile isWord
      if name.isEmpty then none
      else
        match tail (r4.dropWhile isWord) with
        | none => none
        | some d => some (name, d)

/-- `envVarTmplMatcher.FindStringSubmatch` (current tree): `(name, default)`. -/
def matchTemplate (s : Str) : Option (Str × Option Str) := matchWith matchTail s

/-- the same at the pinned commit -/
def matchTemplateLegacy (s : Str) : Option (Str × Option Str) := matchWith matchTailLegacy s

/-! ### `MatchAndResolve` -/

/-- `strings.Trim(d, "\"")` -/
def trimQuotes (d : Str) : Str := trimRight (· == '"') (d.dropWhile (· == '"'))

/-- outcome of `MatchAndResolve`: `(out, ok, err)` -/
inductive Res where
  | untouched            -- `(in, false, nil)`
  | replaced (v : Str)   -- `(v, true, nil)`
  | error                -- `(_, false, ErrFailedParsing)`
  deriving DecidableEq, Repr

abbrev Env := Str → Option Str

def resolveWith (m : Str → Option (Str × Option Str)) (env : Env) (s : Str) : Res :=
  match m s with
  | none => .untouched
  | some (name, d) =>
    match env name with
    | some v => .replaced v
    | none =>
      match d with
      | some d => .replaced (trimQuotes d)
      | none => .error

def resolveStr (env : Env) (s : Str) : Res := resolveWith matchTemplate env s
def resolveStrLegacy (env : Env) (s : Str) : Res := resolveWith matchTemplateLegacy env s

/-! ### documents -/

/-- A configuration document with the switches of ONE dimension made explicit.
`switch bs`: a map whose keys are values of the dimension (`some i`) or `default` (`none`). -/
inductive Doc where
  | str (s : Str)
  | num (n : Nat)                      -- any non-string scalar (left alone by the templates)
  | list (xs : List Doc)
  | map (kvs : List (String × Doc))
  | switch (bs : List (Option Nat × Doc))
  deriving Repr

inductive LoadErr where
  | noBranch      -- "broken dim key": neither the selected value nor `default`
  | unsetVar      -- templated environment variable not found
  deriving DecidableEq, Repr

mutual
/-- dimension reduction for one dimension with selected value `sel` (C03's `resolve`, one dimension) -/
def select (sel : Nat) : Doc → Except LoadErr Doc
  | .str s => .ok (.str s)
  | .num n => .ok (.num n)
  | .list xs => match selectList sel xs with
    | .ok ys => .ok (.list ys)
    | .error e => .error e
  | .map kvs => match selectKvs sel kvs with
    | .ok ys => .ok (.map ys)
    | .error e => .error e
  | .switch bs => match pickSel sel bs with
    | some r => r
    | none => match pickDefault sel bs with
      | some r => r
      | none => .error .noBranch
def selectList (sel : Nat) : List Doc → Except LoadErr (List Doc)
  | [] => .ok []
  | x :: xs => match select sel x with
    | .error e => .error e
    | .ok y => match selectList sel xs with
      | .error e => .error e
      | .ok ys => .ok (y :: ys)
def selectKvs (sel : Nat) : List (String × Doc) → Except LoadErr (List (String × Doc))
  | [] => .ok []
  | (k, x) :: xs => match select sel x with
    | .error e => .error e
    | .ok y => match selectKvs sel xs with
      | .error e => .error e
      | .ok ys => .ok ((k, y) :: ys)
/-- case 1 of `reduce`: follow the key of the selected value -/
def pickSel (sel : Nat) : List (Option Nat × Doc) → Option (Except LoadErr Doc)
  | [] => none
  | (k, x) :: bs => if k = some sel then some (select sel x) else pickSel sel bs
/-- case 2 of `reduce`: follow `default` -/
def pickDefault (sel : Nat) : List (Option Nat × Doc) → Option (Except LoadErr Doc)
  | [] => none
  | (k, x) :: bs => if k = none then some (select sel x) else pickDefault sel bs
end

mutual
/-- `parseTemplatedElements`, parametric in the string resolver. A switch that is still present is
just a Go map: every value is visited. -/
def resolveTemplatesWith (rs : Str → Res) : Doc → Except LoadErr Doc
  | .str s => match rs s with
    | .untouched => .ok (.str s)
    | .replaced v => .ok (.str v)
    | .error => .error .unsetVar
  | .num n => .ok (.num n)
  | .list xs => match resolveListWith rs xs with
    | .ok ys => .ok (.list ys)
    | .error e => .error e
  | .map kvs => match resolveKvsWith rs kvs with
    | .ok ys => .ok (.map ys)
    | .error e => .error e
  | .switch bs => match resolveBsWith rs bs with
    | .ok ys => .ok (.switch ys)
    | .error e => .error e
def resolveListWith (rs : Str → Res) : List Doc → Except LoadErr (List Doc)
  | [] => .ok []
  | x :: xs => match resolveTemplatesWith rs x with
    | .error e => .error e
    | .ok y => match resolveListWith rs xs with
      | .error e => .error e
      | .ok ys => .ok (y :: ys)
def resolveKvsWith (rs : Str → Res) : List (String × Doc) → Except LoadErr (List (String × Doc))
  | [] => .ok []
  | (k, x) :: xs => match resolveTemplatesWith rs x with
    | .error e => .error e
    | .ok y => match resolveKvsWith rs xs with
      | .error e => .error e
      | .ok ys => .ok ((k, y) :: ys)
def resolveBsWith (rs : Str → Res) : List (Option Nat × Doc) → Except LoadErr (List (Option Nat × Doc))
  | [] => .ok []
  | (k, x) :: xs => match resolveTemplatesWith rs x with
    | .error e => .error e
    | .ok y => match resolveBsWith rs xs with
      | .error e => .error e
      | .ok ys => .ok ((k, y) :: ys)
end

def resolveTemplates (env : Env) : Doc → Except LoadErr Doc := resolveTemplatesWith (resolveStr env)
def resolveTemplatesLegacy (env : Env) : Doc → Except LoadErr Doc :=
  resolveTemplatesWith (resolveStrLegacy env)

/-- `FromBytes` after YAML decoding: reduce, then substitute. -/
def load (sel : Nat) (env : Env) (d : Doc) : Except LoadErr Doc :=
  match select sel d with
  | .error e => .error e
  | .ok y => resolveTemplates env y

def loadLegacy (sel : Nat) (env : Env) (d : Doc) : Except LoadErr Doc :=
  match select sel d with
  | .error e => .error e
  | .ok y => resolveTemplatesLegacy env y

/-- `extract`: dotted-path walk through maps (no list indexing). -/
def extract : Doc → List String → Option Doc
  | d, [] => some d
  | .map kvs, k :: ks => match kvs.lookup k with
    | some v => extract v ks
    | none => none
  | _, _ :: _ => none

/-! ## SPEC — the property text -/

def AllWs (w : Str) : Prop := ∀ c ∈ w, isWs c = true

/-- NAME ∈ `[A-Za-z0-9_]+` -/
def IsName (n : Str) : Prop := n ≠ [] ∧ ∀ c ∈ n, isWord c = true

/-- DEFAULT: non-empty, on one line, no blank at either end. -/
def IsDefault (d : Str) : Prop :=
  d ≠ [] ∧ (∀ c ∈ d, c ≠ '\n') ∧ (∀ c, d.head? = some c → isWs c = false) ∧
    (∀ c, d.getLast? = some c → isWs c = false)

/-- `s` is exactly `${{env:NAME}}` (`d = none`) or `${{env:NAME | DEFAULT}}` (`d = some DEFAULT`)
with optional inner whitespace `w₁ … w₅`. -/
def IsTemplate (s n : Str) (d : Option Str) : Prop :=
  IsName n ∧
  match d with
  | none => ∃ w1 w2 w3, AllWs w1 ∧ AllWs w2 ∧ AllWs w3 ∧
      s = openB ++ w1 ++ envKw ++ w2 ++ n ++ w3 ++ closeB
  | some d => IsDefault d ∧ ∃ w1 w2 w3 w4 w5, AllWs w1 ∧ AllWs w2 ∧ AllWs w3 ∧ AllWs w4 ∧ AllWs w5 ∧
      s = openB ++ w1 ++ envKw ++ w2 ++ n ++ w3 ++ ['|'] ++ w4 ++ d ++ w5 ++ closeB

/-- "the default with surrounding double quotes stripped" (README: any `"` characters are trimmed
from default values): `t` is `d` without its leading and trailing `"` characters. -/
def StripsQuotes (d t : Str) : Prop :=
  ∃ a b, d = a ++ t ++ b ∧ (∀ c ∈ a, c = '"') ∧ (∀ c ∈ b, c = '"') ∧
    (t = [] → b = []) ∧
    (∀ c, t.head? = some c → c ≠ '"') ∧ (∀ c, t.getLast? = some c → c ≠ '"')

/-- What the property says happens to a string value `s` under environment `env`. -/
inductive SpecResolve (env : Env) (s : Str) : Res → Prop where
  | set (n d v) : IsTemplate s n d → env n = some v → SpecResolve env s (.replaced v)
  | dflt (n d t) : IsTemplate s n (some d) → env n = none → StripsQuotes d t →
      SpecResolve env s (.replaced t)
  | unset (n) : IsTemplate s n none → env n = none → SpecResolve env s .error
  | other : (¬ ∃ n d, IsTemplate s n d) → SpecResolve env s .untouched

/-- `(name, has default)` if the string is a template -/
def tmplOf (s : Str) : List (Str × Bool) :=
  match matchTemplate s with
  | some (n, d) => [(n, d.isSome)]
  | none => []

mutual
/-- `(name, has default)` of every template on the selected branches -/
def tmplsOnSelected (sel : Nat) : Doc → List (Str × Bool)
  | .str s => tmplOf s
  | .num _ => []
  | .list xs => tmplsList sel xs
  | .map kvs => tmplsKvs sel kvs
  | .switch bs => match tmplsPickSel sel bs with
    | some r => r
    | none => match tmplsPickDefault sel bs with
      | some r => r
      | none => []
def tmplsList (sel : Nat) : List Doc → List (Str × Bool)
  | [] => []
  | x :: xs => tmplsOnSelected sel x ++ tmplsList sel xs
def tmplsKvs (sel : Nat) : List (String × Doc) → List (Str × Bool)
  | [] => []
  | (_, x) :: xs => tmplsOnSelected sel x ++ tmplsKvs sel xs
def tmplsPickSel (sel : Nat) : List (Option Nat × Doc) → Option (List (Str × Bool))
  | [] => none
  | (k, x) :: bs => if k = some sel then some (tmplsOnSelected sel x) else tmplsPickSel sel bs
def tmplsPickDefault (sel : Nat) : List (Option Nat × Doc) → Option (List (Str × Bool))
  | [] => none
  | (k, x) :: bs => if k = none then some (tmplsOnSelected sel x) else tmplsPickDefault sel bs
end

/-- variable names of the templates sitting on the branches selected by `sel` -/
def varsOnSelected (sel : Nat) (d : Doc) : List Str := (tmplsOnSelected sel d).map (·.1)

mutual
/-- no switch anywhere (the shape of a reduced document) -/
def switchFree : Doc → Bool
  | .str _ => true
  | .num _ => true
  | .list xs => switchFreeList xs
  | .map kvs => switchFreeKvs kvs
  | .switch _ => false
def switchFreeList : List Doc → Bool
  | [] => true
  | x :: xs => switchFree x && switchFreeList xs
def switchFreeKvs : List (String × Doc) → Bool
  | [] => true
  | (_, x) :: xs => switchFree x && switchFreeKvs xs
end

/-! templates of ALL string values of a tree (what `parseTemplatedElements` visits) -/
mutual
def allTmpls : Doc → List (Str × Bool)
  | .str s => tmplOf s
  | .num _ => []
  | .list xs => allTmplsList xs
  | .map kvs => allTmplsKvs kvs
  | .switch bs => allTmplsBs bs
def allTmplsList : List Doc → List (Str × Bool)
  | [] => []
  | x :: xs => allTmpls x ++ allTmplsList xs
def allTmplsKvs : List (String × Doc) → List (Str × Bool)
  | [] => []
  | (_, x) :: xs => allTmpls x ++ allTmplsKvs xs
def allTmplsBs : List (Option Nat × Doc) → List (Str × Bool)
  | [] => []
  | (_, x) :: xs => allTmpls x ++ allTmplsBs xs
end

/-- outcome of the substitution over a whole tree: it fails exactly when some template without a
default names an unset variable -/
def Outcome (env : Env) (r : Except LoadErr α) (ts : List (Str × Bool)) : Prop :=
  ((∃ y, r = .ok y) ∧ ∀ n, (n, false) ∈ ts → env n ≠ none) ∨
  (r = .error .unsetVar ∧ ∃ n, (n, false) ∈ ts ∧ env n = none)

/-- what a string value becomes when the substitution succeeds -/
def outOf (rs : Str → Res) (s : Str) : Str :=
  match rs s with
  | .replaced v => v
  | _ => s

mutual
/-- apply `f` to every string value, at any depth: map values, list items, (raw) switch branches -/
def liftStrs (f : Str → Str) : Doc → Doc
  | .str s => .str (f s)
  | .num n => .num n
  | .list xs => .list (liftList f xs)
  | .map kvs => .map (liftKvs f kvs)
  | .switch bs => .switch (liftBs f bs)
def liftList (f : Str → Str) : List Doc → List Doc
  | [] => []
  | x :: xs => liftStrs f x :: liftList f xs
def liftKvs (f : Str → Str) : List (String × Doc) → List (String × Doc)
  | [] => []
  | (k, x) :: xs => (k, liftStrs f x) :: liftKvs f xs
def liftBs (f : Str → Str) : List (Option Nat × Doc) → List (Option Nat × Doc)
  | [] => []
  | (k, x) :: xs => (k, liftStrs f x) :: liftBs f xs
end

end EnvTmpl
